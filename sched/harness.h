/* harness.h - thread bodies shared by the controlled-scheduler explorer (esched.c) and the free-running
 * ThreadSanitizer pass (tsanrun.c).  Each thread uses its own eav_t or the stateless validators on shared
 * read-only strings; everything that could collide is made to collide. */
#ifndef HARNESS_H
#define HARNESS_H
#ifndef MAXT
#define MAXT 3
#endif
static void add_region(const void *p, size_t n);
#define LOGSZ 1024
static char LOG[MAXT][LOGSZ]; static char REFLOG[MAXT][LOGSZ];
static void logf_(int t, const char *fmt, ...) { size_t l = strlen(LOG[t]); va_list ap; va_start(ap, fmt); vsnprintf(LOG[t] + l, LOGSZ - l, fmt, ap); va_end(ap); }

static eav_t OBJ[MAXT];
static char SHARED1[64], SHARED2[64];
static const EAV_RFC RFCS[4] = { EAV_RFC_822, EAV_RFC_5321, EAV_RFC_5322, EAV_RFC_6531 };

static void obj_setup(int t, int mode, int tld) { memset(&OBJ[t], 0, sizeof OBJ[t]); eav_init(&OBJ[t]); OBJ[t].rfc = RFCS[mode]; OBJ[t].tld_check = tld; eav_setup(&OBJ[t]); }
static void do_email(int t, const char *a) {
    int r = eav_is_email(&OBJ[t], a, strlen(a));
    const char *m = eav_errstr(&OBJ[t]);
    logf_(t, "[%s -> %d err=%d msg=%s rc=%d f=%d%d%d]", a, r, OBJ[t].errcode, m ? m : "(null)", OBJ[t].result->rc, OBJ[t].result->is_ipv4, OBJ[t].result->is_ipv6, OBJ[t].result->is_domain);
}
typedef struct { const char *name; int nthreads; void (*prep)(void); void (*body)(int t); void (*done)(void); } harness_t;

/* H1: two mode-6531 validations with IDN conversion, early TLDs (decoder, IDN path, reserved-name buffer, TLD walk) */
static void h1_prep(void) { for (int t = 0; t < 3; t++) obj_setup(t, 3, 1); }
static void h1_body(int t) { static const char *const a[3] = { "\xd0\xb6@\xd1\x89.ac", "\xd1\x8f.b@\xd0\xb6\xd0\xb6.aaa", "q@\xce\xb1.abarth" }; do_email(t, a[t]); }   /* three different TLD classes */
static void free_objs(void) { for (int t = 0; t < 3; t++) eav_free(&OBJ[t]); }
/* H2: mode 6531 against mode 822 */
static void h2_prep(void) { obj_setup(0, 3, 1); obj_setup(1, 0, 1); obj_setup(2, 2, 0); }
static void h2_body(int t) { static const char *const a[3] = { "a@b.ac", "\"q\\\"\".x@c.ad", "\"a \"@[1.2.3.4]" }; do_email(t, a[t]); }
/* H3: reserved-name look-ups with different 7-letter labels (stack label buffer) */
static void h3_prep(void) { }
static void h3_body(int t) { static const char *const d[3] = { "abcdefg.test", "example.com", "website.onion" }; int r = is_special_domain(d[t], d[t] + strlen(d[t])); logf_(t, "[special(%s)=%d]", d[t], r); }
/* H4: is_tld of first-in-table TLDs */
static void h4_body(int t) { static const char *const d[3] = { "aaa", "abarth", "ac" }; int r = is_tld(d[t], d[t] + strlen(d[t])); logf_(t, "[tld(%s)=%d]", d[t], r); }
/* H5: is_6531_local on ONE shared string */
static void h5_prep(void) { strcpy(SHARED1, "\xd0\xb6.\"a\\ b\".\xe9\xa6\x99"); add_region(SHARED1, sizeof SHARED1); }
static void h5_body(int t) { int r = is_6531_local(SHARED1, SHARED1 + strlen(SHARED1)); logf_(t, "[6531local=%d]", r); }
/* H6: eav_init+eav_setup on one object while another validates */
static void h6_prep(void) { obj_setup(1, 1, 1); obj_setup(2, 3, 0); }
static void h6_body(int t) {
    if (t == 0) { memset(&OBJ[0], 0x5a, sizeof OBJ[0]); eav_init(&OBJ[0]); OBJ[0].rfc = EAV_RFC_6531; int r = eav_setup(&OBJ[0]); logf_(0, "[setup=%d]", r); do_email(0, "x@y.ac"); }
    else do_email(t, t == 1 ? "a.b@c-d.ad" : "\xd0\xb6@[IPv6:::1]");
}
/* H7: eav_errstr after IDN errors with different codes */
static void h7_body(int t) { static const char *const a[3] = { "a@ab--cd.ac", "a@\xe2\x99\xa5.ad", "a@-x.ae" }; do_email(t, a[t]); do_email(t, "ok@b.ac"); }
/* H8: the same shared address validated in all modes by different threads */
static void h8_prep(void) { strcpy(SHARED2, "\"a b\".c@example.org"); add_region(SHARED2, sizeof SHARED2); obj_setup(0, 0, 1); obj_setup(1, 2, 1); obj_setup(2, 3, 1); }
static void h8_body(int t) { do_email(t, SHARED2); }
/* H9: stateless part validators on shared strings */
static void h9_body(int t) {
    static const char d[] = "ab-c.example.net"; static const char ip[] = "2001:db8::1.2.3.4";
    int a = is_ascii_domain(d, d + sizeof d - 1), b = is_ipaddr(ip, ip + sizeof ip - 1), c = is_5322_local(SHARED2, SHARED2 + 7);
    logf_(t, "[%d %d %d]", a, b, c);
}
/* H10: two operations per thread: settings changed between calls on the own object */
static void h10_prep(void) { obj_setup(0, 3, 1); obj_setup(1, 3, 1); obj_setup(2, 1, 1); }
static void h10_body(int t) { do_email(t, t ? "u@x.ad" : "\xd0\xb6@\xd1\x89.ac"); OBJ[t].rfc = RFCS[t]; OBJ[t].allow_tld = 0; eav_setup(&OBJ[t]); do_email(t, "u@x.ac"); }

/* H11/H12: the SAME look-up twice per thread (a memo / cache / lazily built index only misbehaves on the second call) */
static void h11_body(int t) { static const char *const d[3] = { "aaa", "abarth", "ac" }; for (int k = 0; k < 2; k++) { int r = is_tld(d[t], d[t] + strlen(d[t])); logf_(t, "[tld(%s)=%d]", d[t], r); } }
static void h12_prep(void) { obj_setup(0, 1, 1); obj_setup(1, 0, 1); obj_setup(2, 3, 1); OBJ[0].allow_tld = OBJ[1].allow_tld = OBJ[2].allow_tld = 0; }
static void h12_body(int t) { static const char *const a[3] = { "u@h.aaa", "u@h.abarth", "u@example.org" }; do_email(t, a[t]); do_email(t, a[t]); }

/* H13: the (start,end) validators with the end pointer in the MIDDLE of one shared buffer (an address cut out of a longer line) */
static char SHARED3[96];
static void h13_prep(void) { strcpy(SHARED3, "<ann.b@\xd0\xb6.wikipedia.org> [IPv6:::1.2.3.4], next"); add_region(SHARED3, sizeof SHARED3); }
static void h13_body(int t) {
    const char *s = SHARED3; int ir = 0; (void)t;
#ifdef HAVE_IDNKIT
    int a = is_6531_local(s + 1, s + 6), b = 0 /* the idnkit build's is_utf8_domain takes a resolver context */, c = is_ascii_domain(s + 10, s + 23), d = is_special_domain(s + 10, s + 23);
#else
    int a = is_6531_local(s + 1, s + 6), b = is_utf8_domain(&ir, s + 7, s + 23, false), c = is_ascii_domain(s + 10, s + 23), d = is_special_domain(s + 10, s + 23);
#endif
    int e = 0 /* no TLD table walk here: it would square to 10^7 states */, f = is_ipv6(s + 31, s + 41), g = is_ipv4(s + 34, s + 41), h = is_822_local(s + 1, s + 6);
    logf_(t, "[%d %d/%d %d %d %d %d %d %d]", a, b, ir, c, d, e, f, g, h);
}

/* H14: look-ups of labels written with capitals (a case-folding path may use a scratch buffer), twice per thread */
static void h14_body(int t) { static const char *const d[3] = { "AAA", "Abarth", "aC" }; for (int k = 0; k < 2; k++) { int r = is_tld(d[t], d[t] + strlen(d[t])); logf_(t, "[tld(%s)=%d]", d[t], r); } }

/* H15: address literals whose dotted quad starts with a zero octet (the 0.0.0.0 exception has its own code path), plain and as IPv6 tail, twice per thread */
static void h15_prep(void) { obj_setup(0, 0, 1); obj_setup(1, 1, 0); obj_setup(2, 3, 1); }
static void h15_body(int t) { static const char *const a[3] = { "a@[0.0.0.0]", "b@[IPv6:::0.0.0.1]", "c@[0.1.2.3]" }; do_email(t, a[t]); do_email(t, a[t]); }

/* H16: rooted names with different last labels in the ASCII modes (the root dot has its own branch in the reserved-name test), twice per thread */
static void h16_prep(void) { obj_setup(0, 0, 1); obj_setup(1, 2, 1); obj_setup(2, 1, 1); }
static void h16_body(int t) { static const char *const a[3] = { "u@mail.test.", "u@mail.info.", "u@a.onion." }; do_email(t, a[t]); do_email(t, a[t]); }

/* H17: quoted strings with white space away from the quotes, mode 6531, twice per thread (the RFC6531_FOLLOW_RFC5322 build has a folding /
 * white-space rule with look-ahead of its own there; the default build treats them as ordinary qtext) */
static void h17_prep(void) { obj_setup(0, 3, 1); obj_setup(1, 3, 0); obj_setup(2, 3, 1); }
static void h17_body(int t) { static const char *const a[3] = { "\"a b\"@x.ac", "\"x  \"@y.ad", "\"q\tr s\".\xd0\xb6@z.ae" }; do_email(t, a[t]); do_email(t, a[t]); }

/* W18 (write-set oracle and ThreadSanitizer pass only: a table miss walks all 1591 rows, ~5000 scheduling points per thread - the interleaving
 * space of two such walks is beyond the explorer, and nothing is shared unless the write sets say so): UNLISTED last labels written in capitals, through is_tld and through the ASCII modes, from a cold start (a fall-back taken only after a
 * table miss - another comparison, a locale probe, a memo of "not found" - is reached by no listed name); every capital letter occurs */
static void h18_prep(void) { obj_setup(0, 0, 1); obj_setup(1, 1, 1); obj_setup(2, 2, 1); }
static void h18_body(int t) { static const char *const d[3] = { "ABCDEFGHIQ", "JKLMNOPQRI", "STUVWXYZIQ" }; static const char *const a[3] = { "u@host.ZZI", "u@mail.QIQJ", "u@a.b.IIIIQ" };
    int r = is_tld(d[t], d[t] + strlen(d[t])); logf_(t, "[tld(%s)=%d]", d[t], r); do_email(t, a[t]); do_email(t, a[t]); }

static harness_t H[] = {
    { "H1-two-6531-idn-validations", 2, h1_prep, h1_body, free_objs },
    { "H2-6531-vs-822", 2, h2_prep, h2_body, free_objs },
    { "H3-reserved-names-7-letter-labels", 2, h3_prep, h3_body, NULL },
    { "H4-is_tld-first-entries", 2, h3_prep, h4_body, NULL },
    { "H5-is_6531_local-one-shared-string", 2, h5_prep, h5_body, NULL },
    { "H6-init+setup-vs-validation", 2, h6_prep, h6_body, free_objs },
    { "H7-errstr-after-idn-errors", 2, h1_prep, h7_body, free_objs },
    { "H8-one-shared-address-three-modes", 2, h8_prep, h8_body, free_objs },
    { "H9-part-validators-shared-strings", 2, h8_prep, h9_body, free_objs },
    { "H10-two-ops-per-thread-with-resetup", 2, h10_prep, h10_body, free_objs },
    { "H11-same-tld-lookup-twice-per-thread", 2, h3_prep, h11_body, NULL },
    { "H12-same-address-twice-per-thread-different-classes", 2, h12_prep, h12_body, free_objs },
    { "H13-part-validators-with-mid-buffer-end-pointers", 2, h13_prep, h13_body, NULL },
    { "H14-tld-lookups-with-capitals", 2, h3_prep, h14_body, NULL },
    { "H15-literals-with-zero-first-octet", 2, h15_prep, h15_body, free_objs },
    { "H16-rooted-names-different-last-labels", 2, h16_prep, h16_body, free_objs },
    { "H17-quoted-white-space-in-6531", 2, h17_prep, h17_body, free_objs },
    { "W18-unlisted-capital-tlds-cold-start(write-sets+TSan-only)", 2, h18_prep, h18_body, free_objs },
    { "T1-three-threads-reserved-names", 3, h3_prep, h3_body, NULL },
    { "T2-three-threads-is_tld", 3, h3_prep, h4_body, NULL },
    { "T3-three-threads-6531-822-5322", 3, h2_prep, h2_body, free_objs },
    { "T4-three-threads-shared-address", 3, h8_prep, h8_body, free_objs },
};
#define NH ((int)(sizeof H / sizeof H[0]))
static harness_t *CURH;

#endif
