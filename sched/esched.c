/* esched.c - E-SCHED: exhaustive exploration of thread interleavings of the real library at BASIC-BLOCK
 * granularity (C14).
 *
 * The library is compiled (unmodified) with clang -fsanitize-coverage=trace-pc-guard into libeav_cov.so;
 * every basic-block edge calls __sanitizer_cov_trace_pc_guard, defined here: a scheduling point.
 * Threads are real pthreads serialised by a semaphore hand-off scheduler (exactly one runs at a time).
 *
 * State at a scheduling point = (points passed by each thread, digest of all memory the threads share:
 * libeav's writable segment minus RELRO + the shared input strings registered by the harness).
 * DFS over schedules with a visited set; only points whose state was first seen in the current run spawn
 * alternatives.  While the digest never changes there is no shared mutable memory, thread-local behaviour is a
 * function of its own progress only, and the search covers ALL interleavings (no preemption bound).  If the
 * digest does change, caching is unsound: the harness is re-explored by iterative preemption bounding
 * (0,1,2[,3]) without caching and the bound completed is reported.
 * Oracle per execution: every thread's observation log equals the one of the sequential reference run.
 */
#define _GNU_SOURCE
#include "../mc/mc.h"
#include <pthread.h>
#include <semaphore.h>
#include <link.h>
#include <dlfcn.h>
#include <eav.h>
#include <eav/auto_tld.h>

/* ------------------------------------------------------------------ shared-memory digest */
typedef struct { const unsigned char *p; size_t n; } region_t;
static region_t REG[16]; static int NREG;
static void add_region(const void *p, size_t n) { for (int i = 0; i < NREG; i++) if (REG[i].p == p) return; if (NREG < 16 && n) { REG[NREG].p = p; REG[NREG].n = n; NREG++; } }
static int phdr_cb(struct dl_phdr_info *info, size_t size, void *data) {
    (void)size; (void)data;
    if (!info->dlpi_name || !strstr(info->dlpi_name, "libeav_cov")) return 0;
    uintptr_t relro_lo = 0, relro_hi = 0;
    for (int i = 0; i < info->dlpi_phnum; i++) if (info->dlpi_phdr[i].p_type == PT_GNU_RELRO) {
        relro_lo = info->dlpi_addr + info->dlpi_phdr[i].p_vaddr; relro_hi = relro_lo + info->dlpi_phdr[i].p_memsz; }
    for (int i = 0; i < info->dlpi_phnum; i++) {
        const ElfW(Phdr) *ph = &info->dlpi_phdr[i];
        if (ph->p_type != PT_LOAD || !(ph->p_flags & PF_W)) continue;
        uintptr_t lo = info->dlpi_addr + ph->p_vaddr, hi = lo + ph->p_memsz;
        if (relro_hi > lo && relro_lo <= lo) lo = relro_hi < hi ? relro_hi : hi;     /* RELRO is a prefix of the data segment */
        if (hi > lo) add_region((void *)lo, hi - lo);
    }
    return 0;
}
/* the library's static memory is restored before every execution, so that executions are independent
 * (a value left behind by the previous run would break replay determinism) */
static unsigned char *SNAP[16]; static int NLIBREG;
static void snapshot_take(void) { NLIBREG = NREG; for (int r = 0; r < NLIBREG; r++) { SNAP[r] = malloc(REG[r].n); memcpy(SNAP[r], REG[r].p, REG[r].n); } }
static void snapshot_restore(void) { for (int r = 0; r < NLIBREG; r++) memcpy((void *)REG[r].p, SNAP[r], REG[r].n); }
static uint64_t digest(void) {
    uint64_t h = 1469598103934665603ull;
    for (int r = 0; r < NREG; r++) {
        const uint64_t *w = (const uint64_t *)REG[r].p; size_t nw = REG[r].n / 8;
        for (size_t i = 0; i < nw; i++) { h ^= w[i]; h *= 1099511628211ull; }
        for (size_t i = nw * 8; i < REG[r].n; i++) { h ^= REG[r].p[i]; h *= 1099511628211ull; }
    }
    return h;
}

/* ------------------------------------------------------------------ scheduler */
#define MAXT 3
static int NT;
static sem_t SEM[MAXT], SEM_MAIN;
static int FIN[MAXT]; static long PROG[MAXT];
static __thread int tl_tid = -1;
typedef struct { uint64_t key; unsigned char cur, enabled, chosen, newkey; } pt_t;
#define TRMAX 60000
static pt_t TRACE[TRMAX]; static long NTRACE;
static const unsigned char *PREFIX; static long NPREFIX;
static int DIVERGED, WANT_KEYS;
static uint64_t DIG0; static int DIG_VARIED; static long DIG_VARIED_AT; static int DIG_VARIED_TID;
static long POINTS_TOTAL;

static uint64_t state_key(uint64_t dg) {
    uint64_t h = dg;
    for (int t = 0; t < NT; t++) { h ^= (uint64_t)(PROG[t] + 1) + ((uint64_t)FIN[t] << 40) + ((uint64_t)t << 56); h *= 1099511628211ull; }
    return h;
}
static void decide(int me, int me_finished) {
    unsigned en = 0; int nen = 0, low = -1;
    for (int t = 0; t < NT; t++) if (!FIN[t]) { en |= 1u << t; nen++; if (low < 0) low = t; }
    if (nen == 0) { sem_post(&SEM_MAIN); return; }
    int choice;
    if (nen == 1) choice = low;
    else {
        long i = NTRACE;
        if (i >= TRMAX) { fprintf(stderr, "trace overflow\n"); abort(); }
        if (i < NPREFIX) { choice = PREFIX[i]; if (!(en & (1u << choice))) { DIVERGED = 1; choice = low; } }
        else choice = (me >= 0 && !me_finished) ? me : low;
        uint64_t dg = 0;
        if (WANT_KEYS || i >= NPREFIX) {
            dg = digest();
            if (dg != DIG0 && !DIG_VARIED) { DIG_VARIED = 1; DIG_VARIED_AT = i; DIG_VARIED_TID = me; }
        }
        TRACE[i].key = state_key(dg); TRACE[i].cur = (unsigned char)(me < 0 ? 255 : me); TRACE[i].enabled = (unsigned char)en; TRACE[i].chosen = (unsigned char)choice;
        NTRACE = i + 1;
    }
    if (choice != me || me_finished) {
        sem_post(&SEM[choice]);
        if (me >= 0 && !me_finished) sem_wait(&SEM[me]);
    }
}
static inline void sched_point(void) { PROG[tl_tid]++; POINTS_TOTAL++; decide(tl_tid, 0); }

void __sanitizer_cov_trace_pc_guard_init(uint32_t *start, uint32_t *stop) { static uint32_t n; for (uint32_t *x = start; x < stop; x++) if (!*x) *x = ++n; }
void __sanitizer_cov_trace_pc_guard(uint32_t *guard) { (void)guard; if (tl_tid >= 0) sched_point(); }
/* loads and stores of the library (-fsanitize-coverage=trace-loads,trace-stores): a scheduling point iff the address
 * lies in memory the threads share (sound reduction: accesses to thread-private memory commute with everything) */
static inline int is_shared(const void *a) { for (int r = 0; r < NREG; r++) if ((const unsigned char *)a >= REG[r].p && (const unsigned char *)a < REG[r].p + REG[r].n) return 1; return 0; }
#define ACC(name) void name(void *a) { if (tl_tid >= 0 && is_shared(a)) sched_point(); }
ACC(__sanitizer_cov_load1) ACC(__sanitizer_cov_load2) ACC(__sanitizer_cov_load4) ACC(__sanitizer_cov_load8) ACC(__sanitizer_cov_load16)
ACC(__sanitizer_cov_store1) ACC(__sanitizer_cov_store2) ACC(__sanitizer_cov_store4) ACC(__sanitizer_cov_store8) ACC(__sanitizer_cov_store16)
void verif_point(void) { if (tl_tid >= 0) sched_point(); }

#include "harness.h"

static void *thread_main(void *arg) {
    int t = (int)(intptr_t)arg;
    sem_wait(&SEM[t]);
    tl_tid = t;
    CURH->body(t);
    tl_tid = -1;
    FIN[t] = 1;
    decide(t, 1);
    return NULL;
}
/* one execution under a schedule prefix; afterwards default policy (keep running the current thread) */
static void execute(const unsigned char *prefix, long nprefix, int want_keys) {
    NT = CURH->nthreads; NTRACE = 0; PREFIX = prefix; NPREFIX = nprefix; DIVERGED = 0; WANT_KEYS = want_keys;
    for (int t = 0; t < MAXT; t++) { FIN[t] = 0; PROG[t] = 0; LOG[t][0] = 0; }
    snapshot_restore();
    CURH->prep();
    DIG0 = digest();
    pthread_t th[MAXT];
    for (int t = 0; t < NT; t++) pthread_create(&th[t], NULL, thread_main, (void *)(intptr_t)t);
    decide(-1, 0);
    sem_wait(&SEM_MAIN);
    for (int t = 0; t < NT; t++) pthread_join(th[t], NULL);
    if (CURH->done) CURH->done();
}

/* ------------------------------------------------------------------ write sets of the library's static memory
 * The library takes no lock and uses no atomic (lib/c14imports.py checks its imports), so a byte of its static memory that
 * two threads both write during their calls is a data race whatever the schedule - also when the stores happen inside libc
 * (strtok_r, qsort, ...), where neither the compiler-inserted access hooks nor ThreadSanitizer can see them, and also when
 * every outcome stays the same.  Each thread body is run alone from the restored snapshot; the bytes that differ from the
 * snapshot afterwards are its write set (a store of the value already there is invisible - stated in DESIGN.md). */
static int solo_write_sets(char *where, size_t cap) {
    unsigned char *W[MAXT][16]; int hit = 0; where[0] = 0;
    int nt = CURH->nthreads;
    for (int t = 0; t < nt; t++) {
        for (int t2 = 0; t2 < MAXT; t2++) LOG[t2][0] = 0;
        snapshot_restore(); CURH->prep();
        unsigned char *before[16]; for (int r = 0; r < NLIBREG; r++) { before[r] = malloc(REG[r].n); memcpy(before[r], REG[r].p, REG[r].n); }
        CURH->body(t);                      /* tl_tid is -1: no scheduling point fires */
        for (int r = 0; r < NLIBREG; r++) { W[t][r] = calloc(REG[r].n, 1); for (size_t i = 0; i < REG[r].n; i++) if (REG[r].p[i] != before[r][i]) W[t][r][i] = 1; free(before[r]); }
        if (CURH->done) CURH->done();
    }
    for (int a = 0; a < nt && !hit; a++) for (int b = a + 1; b < nt && !hit; b++) for (int r = 0; r < NLIBREG && !hit; r++) for (size_t i = 0; i < REG[r].n; i++) if (W[a][r][i] && W[b][r][i]) {
        size_t n = 0; while (i + n < REG[r].n && W[a][r][i + n] && W[b][r][i + n]) n++;
        Dl_info di; const char *sym = (dladdr(REG[r].p + i, &di) && di.dli_sname) ? di.dli_sname : "(static object)";
        snprintf(where, cap, "threads %d and %d both store to %zu byte(s) of the library's static memory at writable-segment offset %zu (%s)", a, b, n, i, sym);
        hit = 1; break;
    }
    for (int t = 0; t < nt; t++) for (int r = 0; r < NLIBREG; r++) free(W[t][r]);
    snapshot_restore();
    return hit;
}

/* ------------------------------------------------------------------ explorer */
static int C_SHAREDW, C_EXEC, C_STATES, C_TRANS, C_MAXSW, C_POINTS, C_OUTCOMES;
typedef struct { unsigned char *c; long n; } sched_t;
static sched_t *STACK; static long NSTACK, CAPSTACK;
static void push(const unsigned char *c, long n, int alt) {
    if (NSTACK >= CAPSTACK) { CAPSTACK = CAPSTACK ? CAPSTACK * 2 : 1 << 16; STACK = realloc(STACK, (size_t)CAPSTACK * sizeof *STACK); }
    unsigned char *b = malloc((size_t)n + 1); memcpy(b, c, (size_t)n); b[n] = (unsigned char)alt;
    STACK[NSTACK].c = b; STACK[NSTACK].n = n + 1; NSTACK++;
}
static uint64_t *VIS; static long VISSZ, NVIS;
static int vis_add(uint64_t k) {
    if (!k) k = 1;
    long i = (long)(k % (uint64_t)VISSZ);
    while (VIS[i]) { if (VIS[i] == k) return 0; i = (i + 1) % VISSZ; }
    VIS[i] = k; NVIS++;
    if (NVIS * 2 > VISSZ) { fprintf(stderr, "visited set full\n"); exit(2); }
    return 1;
}
static int switches_of(void) { int s = 0; for (long i = 1; i < NTRACE; i++) if (TRACE[i].chosen != TRACE[i - 1].chosen) s++; return s; }
static char OUTSEEN[64][MAXT * 64]; static int NOUTSEEN;
static void note_outcome(void) {
    char v[MAXT * 64]; v[0] = 0; for (int t = 0; t < NT; t++) { unsigned h = 0; for (char *p = LOG[t]; *p; p++) h = h * 31 + (unsigned char)*p; sprintf(v + strlen(v), "%08x.", h); }
    for (int i = 0; i < NOUTSEEN; i++) if (!strcmp(OUTSEEN[i], v)) return;
    if (NOUTSEEN < 64) strcpy(OUTSEEN[NOUTSEEN++], v);
}
static void check_outcome(const char *hname) {
    unsigned char ch[TRMAX]; for (long i = 0; i < NTRACE; i++) ch[i] = TRACE[i].chosen;
    note_outcome();
    for (int t = 0; t < NT; t++) if (strcmp(LOG[t], REFLOG[t]) != 0) {
        char cfg[96]; snprintf(cfg, sizeof cfg, "harness=%s", hname);
        mc_violation("schedule", "outcome-differs-from-sequential-run", "", cfg, ch, (size_t)(NTRACE > MC_CASEMAX ? MC_CASEMAX : NTRACE), "thread %d observed %.80s ; sequential run %.80s", t, LOG[t], REFLOG[t]);
        return;
    }
    if (DIVERGED) { char cfg[96]; snprintf(cfg, sizeof cfg, "harness=%s", hname); mc_violation("noreplay-schedule", "replay-divergence(harness-error)", "", cfg, ch, 0, "a recorded choice was not enabled on replay"); }
}

static void explore_harness(long hi, void *arg) {
    (void)arg; CURH = &H[hi]; harness_t *h = CURH;
    int saved_nreg = NREG;
#ifndef LIB_HAS_SYNC
#define LIB_HAS_SYNC 0
#endif
    { char where[256]; if (solo_write_sets(where, sizeof where)) { char cfg[96]; snprintf(cfg, sizeof cfg, "harness=%s", h->name);
        if (LIB_HAS_SYNC) { mc_sample("static-writes", cfg, "", 0, where); }      /* the tree uses locks or atomics: left to the scheduler and TSan */
        else {
        mc_violation("static-writes", "data-race:library-static-memory-written-by-two-threads", "", cfg, (const unsigned char *)"", 0, "%s; the library has no synchronisation, so this is a write-write race under every schedule", where);
        NREG = saved_nreg; return; } } }
    /* sequential reference: no prefix => thread 0 runs to completion, then 1, then 2 */
    execute(NULL, 0, 1);
    for (int t = 0; t < MAXT; t++) strcpy(REFLOG[t], LOG[t]);
    long n_pts[MAXT]; for (int t = 0; t < MAXT; t++) n_pts[t] = PROG[t];
    /* determinism: the same schedule twice gives the same trace and logs */
    {
        unsigned char ch[TRMAX]; long n = NTRACE; uint64_t k0[64]; for (long i = 0; i < n; i++) ch[i] = TRACE[i].chosen; for (long i = 0; i < n && i < 64; i++) k0[i] = TRACE[i].key;
        execute(ch, n, 1);
        int same = (NTRACE == n); for (long i = 0; same && i < n && i < 64; i++) if (TRACE[i].key != k0[i]) same = 0;
        for (int t = 0; t < NT; t++) if (strcmp(LOG[t], REFLOG[t])) same = 0;
        if (!same) { char cfg[96]; snprintf(cfg, sizeof cfg, "harness=%s", h->name); mc_violation("noreplay-determinism", "nondeterministic-replay(harness-error)", "", cfg, ch, 0, "the same schedule gave a different trace"); return; }
    }
    if (h->name[0] == 'W') {      /* too long for interleaving exploration: decided by the write-set oracle above (and the free-running TSan pass) */
        char msg[160]; snprintf(msg, sizeof msg, "points per thread %ld/%ld/%ld: write sets of the threads are disjoint, sequential run deterministic; interleavings not enumerated", n_pts[0], n_pts[1], n_pts[2]);
        mc_sample("harness", h->name, "", 0, msg); MC_ADD(C_EXEC, 2); MC_ADD(C_EVAL, 2); NREG = saved_nreg; return; }
    VISSZ = 1 << 23; VIS = calloc((size_t)VISSZ, sizeof *VIS); NVIS = 0; NSTACK = 0;
    DIG_VARIED = 0;
    long execs = 0, trans = 0; int maxsw = 0;
    unsigned char empty = 0; (void)empty;
    /* root */
    STACK = NULL; CAPSTACK = 0; push((unsigned char *)"", 0, 0); STACK[0].n = 0;
    int incomplete = 0;
    while (NSTACK > 0) {
        if ((execs & 63) == 0 && mc_deadline_hit()) { incomplete = 1; break; }
        sched_t s = STACK[--NSTACK];
        mc_current("schedule", h->name, s.c, (size_t)(s.n > MC_CASEMAX ? MC_CASEMAX : s.n));
        execute(s.c, s.n, 0);
        execs++; MC_ADD(C_EVAL, 1);
        check_outcome(h->name);
        int sw = switches_of(); if (sw > maxsw) maxsw = sw;
        unsigned char ch[TRMAX]; for (long i = 0; i < NTRACE; i++) ch[i] = TRACE[i].chosen;
        long from = s.n > 0 ? s.n - 1 : 0;       /* the last prefix entry is the new alternative: its source state is already visited */
        for (long i = (s.n > 0 ? s.n : 0); i < NTRACE; i++) {
            (void)from;
            if (!vis_add(TRACE[i].key)) break;            /* explored from here before */
            for (int alt = 0; alt < NT; alt++) if ((TRACE[i].enabled & (1u << alt)) && alt != TRACE[i].chosen) { push(ch, i, alt); trans++; }
            trans++;
        }
        free(s.c);
        if (DIG_VARIED) break;
    }
    int bound_done = -1;
    if (DIG_VARIED) {
        /* shared mutable memory exists: state caching is unsound. Iterative preemption bounding, no caching. */
        char cfg[128]; snprintf(cfg, sizeof cfg, "harness=%s", h->name);
        int maxb = mc_thorough ? 3 : 2;
        for (int b = 0; b <= maxb && !incomplete; b++) {
            while (NSTACK > 0) free(STACK[--NSTACK].c);
            push((unsigned char *)"", 0, 0); STACK[0].n = 0;
            while (NSTACK > 0) {
                if ((execs & 63) == 0 && mc_deadline_hit()) { incomplete = 1; break; }
                sched_t s = STACK[--NSTACK];
                mc_current("schedule-bounded", h->name, s.c, (size_t)(s.n > MC_CASEMAX ? MC_CASEMAX : s.n));
                execute(s.c, s.n, 0); execs++; MC_ADD(C_EVAL, 1);
                check_outcome(h->name);
                int sw = switches_of(); if (sw > maxsw) maxsw = sw;
                unsigned char ch[TRMAX]; for (long i = 0; i < NTRACE; i++) ch[i] = TRACE[i].chosen;
                /* preemptions before point i */
                int pre = 0;
                for (long i = 0; i < NTRACE; i++) {
                    int runnable_cur = TRACE[i].cur != 255 && (TRACE[i].enabled & (1u << TRACE[i].cur));
                    if (i >= s.n) for (int alt = 0; alt < NT; alt++) if ((TRACE[i].enabled & (1u << alt)) && alt != TRACE[i].chosen) {
                        int cost = pre + ((runnable_cur && alt != TRACE[i].cur) ? 1 : 0);
                        if (cost <= b && (b == 0 || cost == b || 1)) { push(ch, i, alt); trans++; }
                    }
                    if (runnable_cur && TRACE[i].chosen != TRACE[i].cur) pre++;
                }
                free(s.c);
                if (mc_sh->nclass > 0 && execs > 200000) { incomplete = 1; break; }
            }
            if (!incomplete) bound_done = b;
        }
        char m2[200]; snprintf(m2, sizeof m2, "memory shared between the threads (libeav static data or a shared input string) changed during the calls (first at decision %ld, thread %d): state caching off, preemption bound completed: %d", DIG_VARIED_AT, DIG_VARIED_TID, bound_done);
        mc_sample("shared-memory-written", cfg, "", 0, m2);
        MC_ADD(C_SHAREDW, 1);
    }
    while (NSTACK > 0) free(STACK[--NSTACK].c);
    free(VIS); free(STACK); STACK = NULL; CAPSTACK = 0;
    NREG = saved_nreg;
    MC_ADD(C_EXEC, execs); MC_ADD(C_STATES, NVIS); MC_ADD(C_TRANS, trans); MC_ADD(C_NONTRIV, NVIS);
    __atomic_fetch_add(&mc_sh->ctr[C_POINTS], (uint64_t)POINTS_TOTAL, __ATOMIC_RELAXED); POINTS_TOTAL = 0;
    { uint64_t cur = mc_sh->ctr[C_MAXSW]; if ((uint64_t)maxsw > cur) mc_sh->ctr[C_MAXSW] = (uint64_t)maxsw; }
    if (NOUTSEEN > 1) __atomic_fetch_add(&mc_sh->ctr[C_OUTCOMES], (uint64_t)(NOUTSEEN - 1), __ATOMIC_RELAXED);
    if (incomplete) mc_sh->deadline_hit = 1;
    char msg[200]; snprintf(msg, sizeof msg, "points per thread %ld/%ld/%ld, executions %ld, states %ld, max context switches %d, digest %s", n_pts[0], n_pts[1], n_pts[2], execs, NVIS, maxsw, DIG_VARIED ? "VARIED" : "constant");
    mc_sample("harness", h->name, "", 0, msg);
}

static int do_replay(void) {
    mc_replay_t r; if (mc_load_replay(mc_replay, &r)) return 2;
    const char *hn = strstr(r.cfg, "harness="); if (!hn) return 2; hn += 8;
    for (int i = 0; i < NH; i++) if (!strncmp(hn, H[i].name, strlen(H[i].name))) {
        CURH = &H[i];
        if (!strcmp(r.sub, "static-writes")) { char where[256]; int hit = solo_write_sets(where, sizeof where); printf("%s\nreplay %s: %s\n", where, mc_replay, hit ? "VIOLATION reproduced" : "no violation"); return hit; }
        execute(NULL, 0, 1); for (int t = 0; t < MAXT; t++) strcpy(REFLOG[t], LOG[t]);
        execute(r.in, r.len, 1); char l1[MAXT][LOGSZ]; memcpy(l1, LOG, sizeof l1);
        execute(r.in, r.len, 1);
        if (memcmp(l1, LOG, sizeof l1)) { printf("replay is not deterministic\n"); return 2; }
        int bad = 0; for (int t = 0; t < CURH->nthreads; t++) if (strcmp(LOG[t], REFLOG[t])) { bad = 1; printf("thread %d: %s\n  sequential: %s\n", t, LOG[t], REFLOG[t]); }
        printf("replay %s: %s\n", mc_replay, bad ? "VIOLATION reproduced" : "no violation");
        return bad;
    }
    return 2;
}

int main(int argc, char **argv) {
    mc_init(argc, argv, "C14");
    for (int t = 0; t < MAXT; t++) sem_init(&SEM[t], 0, 0);
    sem_init(&SEM_MAIN, 0, 0);
    dl_iterate_phdr(phdr_cb, NULL);
    if (NREG == 0) { fprintf(stderr, "libeav_cov writable segment not found\n"); return 2; }
    snapshot_take();
    size_t tot = 0; for (int i = 0; i < NREG; i++) tot += REG[i].n;
    mc_extra_add("\"library_writable_bytes_in_digest\":%zu", tot);
    C_EXEC = mc_counter("schedules_executed"); C_STATES = mc_counter("states"); C_TRANS = mc_counter("transitions"); C_MAXSW = mc_counter("max_context_switches_in_one_execution");
    C_SHAREDW = mc_counter("harnesses_where_shared_memory_changed"); C_POINTS = mc_counter("scheduling_points_executed"); C_OUTCOMES = mc_counter("extra_distinct_outcome_vectors");
    if (mc_replay) return do_replay();
    int nh = mc_thorough ? NH : 18;
    mc_parallel("all interleavings at basic-block granularity, one harness per shard", nh, explore_harness, NULL);
    return mc_finish();
}
