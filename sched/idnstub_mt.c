/* idnstub_mt.c - thread-safe stand-ins for libidn / idnkit on top of libidn2, WITHOUT any bookkeeping (drv/shim.c keeps ledgers in
 * unsynchronised globals, which is fine for the single-threaded history search and wrong under threads).  Used by the free-running
 * ThreadSanitizer pass on the idn and idnkit builds: every byte these functions touch is the caller's or libidn2's. */
#define IDN2_SKIP_LIBIDN_COMPAT 1
#include <idn2.h>
#include <stdlib.h>
#include <string.h>
#ifdef HAVE_LIBIDN
#include <idna.h>
int idna_to_ascii_lz(const char *input, char **output, int flags) { (void)flags; return idn2_to_ascii_8z(input, output, IDN2_NONTRANSITIONAL); }
const char *idna_strerror(int rc) { return idn2_strerror(rc); }
#endif
#ifdef HAVE_IDNKIT
#include <idn/api.h>
idn_result_t idn_resconf_initialize(void) { return idn_success; }
idn_result_t idn_resconf_create(idn_resconf_t *ctx) { *ctx = malloc(8); return *ctx ? idn_success : IDN2_MALLOC; }
void idn_resconf_destroy(idn_resconf_t ctx) { free(ctx); }
idn_result_t idn_res_encodename(idn_resconf_t ctx, idn_action_t actions, const char *from, char *to, size_t tolen) {
    (void)ctx; (void)actions; char *out = NULL; int r = idn2_to_ascii_8z(from, &out, IDN2_NONTRANSITIONAL);
    if (out) { if (r == IDN2_OK) { if (strlen(out) + 1 > tolen) r = IDN2_TOO_BIG_DOMAIN; else strcpy(to, out); } idn2_free(out); }
    return r;
}
const char *idn_result_tostring(idn_result_t r) { return idn2_strerror(r); }
#endif
