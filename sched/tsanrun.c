/* tsanrun.c - free-running ThreadSanitizer pass over the same thread bodies as esched.c (a cooperative scheduler's
 * hand-offs are happens-before edges that would blind the detector), plus a 2..16-thread loop over all modes x
 * settings x a generated address list.  Library and driver are compiled with clang -fsanitize=thread.
 * Output: one line "LOGDIFF ..." per outcome that differs from the sequential reference; TSan writes its reports
 * to the log_path given in TSAN_OPTIONS; the wrapper counts both. */
#define _GNU_SOURCE
#include <stdio.h>
#include <stdlib.h>
#include <string.h>
#include <stdarg.h>
#include <stdint.h>
#include <pthread.h>
#include <eav.h>
#include <eav/auto_tld.h>
#define MAXT 3
#include "harness.h"
static void add_region(const void *p, size_t n) { (void)p; (void)n; }

static harness_t *CURH; static pthread_barrier_t BAR;
static void *tmain(void *a) { int t = (int)(intptr_t)a; pthread_barrier_wait(&BAR); CURH->body(t); return NULL; }

#define NADDR 240
static char ADDR[NADDR][96]; static int NA;
static void gen_addresses(void) {
    static const char *const L[] = { "a", "a.b", "\"q r\"", "\"x\\\"y\"", "\xd0\xb6", "a..b", "\"a\x01\"", "a b", ".a", "\xe9\xa6\x99.z" };
    static const char *const D[] = { "ok.com", "example.org", "test", "b.ac", "\xd0\xbf\xd0\xbe\xd1\x87\xd1\x82\xd0\xb0.\xd1\x80\xd1\x84", "ab--cd.com", "x.zzzzq", "singlelabel", "[1.2.3.4]", "[IPv6:::1]",
        "[IPv6:1:2]", "a..", "-a.com", "website.test", "a.abarth", "\xe2\x99\xa5.de", "xn--p1ai", "sub.xn--p1ai", "a_b.com", "123.456", "", "[1.2.3.4]x", "A.B.AERO", "a.b.c.d.museum" };
    for (unsigned i = 0; i < sizeof L / sizeof L[0]; i++) for (unsigned j = 0; j < sizeof D / sizeof D[0] && NA < NADDR; j++) snprintf(ADDR[NA++], 96, "%s@%s", L[i], D[j]);
}
#define NCFG (4 * 2 * 2)
static char *SEQ[NCFG][NADDR];
static void outcome(eav_t *e, const char *a, char *out, size_t cap) {
    int r = eav_is_email(e, a, strlen(a)); const char *m = eav_errstr(e);
    snprintf(out, cap, "%d/%d/%s/%d/%d%d%d", r, e->errcode, m ? m : "(null)", e->result->rc, e->result->is_ipv4, e->result->is_ipv6, e->result->is_domain);
}
static void cfg_obj(eav_t *e, int c) { eav_init(e); e->rfc = RFCS[c & 3]; e->tld_check = (c >> 2) & 1; if (c >> 3) e->allow_tld = EAV_TLD_NOT_ASSIGNED | EAV_TLD_SPECIAL; eav_setup(e); }
static long DIFFS;
static int ROUNDS = 3;
static void *loopmain(void *a) {
    int t = (int)(intptr_t)a; char o[256];
    pthread_barrier_wait(&BAR);
    for (int round = 0; round < ROUNDS; round++) for (int c0 = 0; c0 < NCFG; c0++) {
        int c = (c0 + t) % NCFG;                     /* threads walk the configurations out of phase */
        eav_t e; memset(&e, 0, sizeof e); cfg_obj(&e, c);
        for (int i = 0; i < NA; i++) {
            int k = (i * 7 + t * 13) % NA;
            outcome(&e, ADDR[k], o, sizeof o);
            if (strcmp(o, SEQ[c][k])) { __atomic_fetch_add(&DIFFS, 1, __ATOMIC_RELAXED); printf("LOGDIFF loop thread=%d cfg=%d addr=%s got=%s want=%s\n", t, c, ADDR[k], o, SEQ[c][k]); }
            /* the stateless validators on the shared string */
            const char *at = strrchr(ADDR[k], '@');
            if (at) { is_822_local(ADDR[k], at); is_6531_local(ADDR[k], at); is_ascii_domain(at + 1, at + 1 + strlen(at + 1)); is_special_domain(at + 1, at + 1 + strlen(at + 1)); }
        }
        eav_free(&e);
    }
    return NULL;
}
int main(int argc, char **argv) {
    int thorough = argc > 1 && !strcmp(argv[1], "thorough");
    long evals = 0;
    /* 1. the harness bodies, free-running */
    int reps = thorough ? 200 : 40;
    for (int hi = 0; hi < NH; hi++) {
        CURH = &H[hi]; int nt = CURH->nthreads;
        for (int t = 0; t < MAXT; t++) LOG[t][0] = 0;
        CURH->prep(); for (int t = 0; t < nt; t++) CURH->body(t); if (CURH->done) CURH->done();
        for (int t = 0; t < MAXT; t++) strcpy(REFLOG[t], LOG[t]);
        for (int r = 0; r < reps; r++) {
            for (int t = 0; t < MAXT; t++) LOG[t][0] = 0;
            CURH->prep(); pthread_barrier_init(&BAR, NULL, (unsigned)nt);
            pthread_t th[MAXT]; for (int t = 0; t < nt; t++) pthread_create(&th[t], NULL, tmain, (void *)(intptr_t)t);
            for (int t = 0; t < nt; t++) pthread_join(th[t], NULL);
            pthread_barrier_destroy(&BAR); if (CURH->done) CURH->done();
            for (int t = 0; t < nt; t++) if (strcmp(LOG[t], REFLOG[t])) { DIFFS++; printf("LOGDIFF harness=%s thread=%d got=%s want=%s\n", CURH->name, t, LOG[t], REFLOG[t]); }
            evals++;
        }
    }
    /* 2. validation loops, 2..16 threads */
    gen_addresses();
    for (int c = 0; c < NCFG; c++) { eav_t e; memset(&e, 0, sizeof e); cfg_obj(&e, c); for (int i = 0; i < NA; i++) { char o[256]; outcome(&e, ADDR[i], o, sizeof o); SEQ[c][i] = strdup(o); } eav_free(&e); }
    ROUNDS = thorough ? 6 : 2;
    static const int NTH[] = { 2, 3, 4, 8, 16 };
    for (unsigned k = 0; k < 5; k++) {
        int nt = NTH[k]; pthread_t th[16]; pthread_barrier_init(&BAR, NULL, (unsigned)nt);
        for (int t = 0; t < nt; t++) pthread_create(&th[t], NULL, loopmain, (void *)(intptr_t)t);
        for (int t = 0; t < nt; t++) pthread_join(th[t], NULL);
        pthread_barrier_destroy(&BAR);
        evals += (long)nt * ROUNDS * NCFG * NA;
    }
    printf("TSANRUN evaluations=%ld logdiffs=%ld addresses=%d configs=%d harness_reps=%d\n", evals, DIFFS, NA, NCFG, reps);
    return 0;
}
