/* wraps.c - linked into libeav_cov.so with -Wl,--wrap=<fn>: every libc call made by the library becomes a
 * scheduling point (the call itself then runs atomically).  verif_point() lives in the explorer. */
#include <stddef.h>
extern void verif_point(void);
#define W1(ret, name, decl, call) extern ret __real_##name decl; ret __wrap_##name decl { verif_point(); return __real_##name call; }
W1(void *, memcpy, (void *d, const void *s, size_t n), (d, s, n))
W1(void *, memchr, (const void *s, int c, size_t n), (s, c, n))
W1(char *, strchr, (const char *s, int c), (s, c))
W1(char *, strrchr, (const char *s, int c), (s, c))
W1(size_t, strspn, (const char *s, const char *a), (s, a))
W1(size_t, strlen, (const char *s), (s))
W1(int, strncasecmp, (const char *a, const char *b, size_t n), (a, b, n))
W1(void *, malloc, (size_t n), (n))
W1(char *, strndup, (const char *s, size_t n), (s, n))
extern void __real_free(void *); void __wrap_free(void *p) { verif_point(); __real_free(p); }
