#!/usr/bin/env python3
"""Round 12 of the seeded changes (see seedmeta_r5.py).  C01-l was not kept: seeded/_rejected/README.md."""
import json
M = {
'C02-l': ("is_822_local: the folding test CRLF SP/HT moved in front of the quoted-pair branch, a pending quoted-pair survives the fold", "mode 822, quoted string: backslash directly followed by CR LF SP, then '\"', '\\' or CR", "reported at once (quoted-string bodies over {a \\ \" SP HT CRLF} / L1 with CR and LF as tokens)."),
'C03-l': ("is_6531_email: the address-literal branch calls is_5321_local instead of is_6531_local", "mode 6531, non-ASCII local part in front of an address literal", "reported at once (the fourth call context of every local part: L@[192.0.2.1])."),
'C04-l': ("is_ascii_domain: a run of consecutive hyphens is stepped over at once and adds 1 to label_length", "ASCII modes: a label longer than 63 characters containing '--' (xn--<60 letters>) is accepted",
          "MISSED at first (the label-length ladder placed ONE hyphen at every position). New: runs of 2-4 hyphens at every position of labels of 4-8 and 58-70 characters (with the xn-- shape among them), 1-5 labels, with and without root dot."),
'C05-l': ("is_ipv6: new length guard end - start >= 45 (should be > 45)", "the 45-byte address ffff:...:ffff:255.255.255.255 refused", "reported at once (maximal literals / group-width and octet-spelling products)."),
'C06-l': ("eav_setup (idn2): leaving mode 6531 also does eav->result = NULL without freeing", "eav_is_email in mode 6531, then eav_setup to an ASCII mode: the last result record is unreachable and never released",
          "MISSED by C06 at first (C13 reported it: C06 drove every input through fresh objects of one mode each). New phase 'api' in C06: every sequence of <= 4 set-ups over {822, 5321, 5322, 6531, invalid} with 8 addresses validated after each, eav_free, then LeakSanitizer's recoverable check (ASan/UBSan watch the calls)."),
'C07-l': ("is_special_domain: 'example' matched by prefix (len == 7 test dropped)", "examples.com, example1.net ... classified special instead of generic", "reported at once (one-edit neighbours and extensions of the reserved names; the new class-name comparison fires too)."),
'C08-l': ("is_special_domain: new check 'second-to-last label >= 63 characters -> not special'", "<63 letters>.test refused as invalid TLD under every mask", "reported at once (reserved suffixes behind a label of every length 1..63)."),
'C09-l': ("is_special_domain: root-dot adjustment 'end[-1] == .' became 'end - cp <= 1'", "a ONE-character last label behind a reserved name (example.com.a, b.test.x) is read as the root: classified special",
          "MISSED at first (reserved names were followed by nothing, by the root dot, or by table rows in the depth corpus - never by a one-character label). New generator: each reserved name followed by one more label of every length 1..63 in two cases, by every single letter and digit, by table rows of five classes, by reserved words and by two labels, behind five fronts."),
'C10-l': ("is_utf8_domain: IDN2_NO_ALABEL_ROUNDTRIP added to the flags when the domain has a byte >= 0x80", "mixed spelling: an A-label that only the round trip refuses (xn--53h) next to a non-ASCII label or dot: accepted",
          "MISSED at first (bad A-labels were tried in all-ASCII names, U-labels in U-label names). New phase 'mixed' with the harness's own RFC 3492 encoder: the xn-- form of every scalar the converter refuses (alone and after a letter) in front of a Cyrillic TLD, behind a Cyrillic label, before U+3002, before fullwidth 'com', glued to a non-ASCII character."),
'C11-l': ("data/punycode.csv: an empty line after the last record", "Text::CSV returns [''] for it; gentld.pl dies before writing the sentinel: the regenerated table is truncated", "reported at once (generators re-run; stand-in reader cross-checked against Python's csv)."),
'C12-l': ("is_5322_email clears is_domain when the TLD lookup fails", "mode 5322, tld_check on, unlisted TLD: flags differ from modes 822/5321", "reported at once (fixed-domain agreement of the ASCII modes incl. flags)."),
'C13-l': ("eav_free returns early when errcode == EEAV_INVALID_RFC", "validation, failed eav_setup, eav_free: the result record leaks", "reported at once (ledger after eav_free in every reachable state)."),
'C14-l': ("RFC6531_FOLLOW_RFC5322 code: look-ahead through a file-scope static copy of the decoder", "option build only: two threads validating quoted local parts with white space in mode 6531",
          "MISSED at first (every C14 step used the default build). New steps: the controlled scheduler (with the write-set oracle) and the ThreadSanitizer pass on a build with all three options on; harness H17 (quoted white space in mode 6531, twice per thread)."),
'C15-l': ("errors[]: the texts of codes 18 and 19 (misplaced hyphen / delimiter) swapped", "any domain refused with code 18 or 19", "reported at once (frozen table of documented texts per code)."),
'C16-l': ("check_tld: EAV_EXTRA strings dropped when rc == EAV_TLD_NOT_ASSIGNED - the mask bit (4), not the class: 4 is generic-restricted", "EAV_EXTRA build, ASCII modes, .biz/.name/.pro: accepted with lpart == domain == NULL", "reported at once (EAV_EXTRA invariants over the TLD corpus)."),
'C17-l': ("LABELS_ALLOW_UNDERSCORE branch: ISALNUM(ch) became isalnum(ch)", "UNDERSCORE builds after setlocale() to a single-byte locale: host-name bytes >= 0x80 accepted in the ASCII modes although no '_' is involved",
          "MISSED at first (the locale steps of round 10 ran the default build; the side-by-side comparison ran in the C locale). New C17 step: the 8 builds side by side after setlocale() to the Latin-1 locale on the corpora in which single bytes vary."),
'C18-l': ("partial/idn/is_utf8_domain.c: an added empty-conversion check returns without going through 'done:'", "libidn build: a domain of code points the mapping removes (soft hyphen): the empty conversion buffer leaks; decisions unchanged",
          "MISSED at first (the three-back-end corpus sweep compared outcomes; the ledger was read in the history search and the fault sweeps only). The corpus sweep of C18 now reads each back end's allocator ledger around every call."),
'C19-l': ("is_utf8_domain calls idn2_lookup_u8 / idn2_free instead of idn2_to_ascii_8z / free; the error branch frees the buffer and falls into the common free", "any failing conversion that left an output buffer: double free",
          "MISSED at first, for a reason inside the harness: only idn2_to_ascii_8z was interposed, so no fault ever reached the changed code and the fault checks passed VACUOUSLY.  All public doors to the converter are interposed now (idn2_to_ascii_8z, idn2_lookup_u8, idn2_lookup_ul, idn2_to_ascii_lz) and idn2_free reaches the ledger like free."),
'C20-l': ("bin: the echo buffer became a C99 variable-length array sized by a counting pass", "one line of several MiB (2 MiB of control bytes, 8 MiB of text): stack overflow, all verdicts lost",
          "MISSED at first (the longest line was 1 MiB). New: lines of 3 MiB of control bytes and 12 MiB of text (thorough: 3 MiB invalid bytes, 16 MiB of 2-byte characters, 32 MiB) between ordinary lines, under a pinned 8 MiB stack limit; run-length replay records for such files."),
}
if __name__ == '__main__':
    for k, (chg, needs, hist) in M.items():
        p = '/verif/seeded/%s/meta.json' % k
        d = json.load(open(p))
        d['change'] = chg; d['what_it_needs_to_manifest'] = needs; d['history'] = hist; d['round'] = 12
        json.dump(d, open(p, 'w'), indent=1)
    print('ok', len(M))
