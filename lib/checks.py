"""Per-property check table and the generic run / evidence / findings flow."""
import os, sys, json, time, shutil, subprocess, glob, re
import buildlib as BL

V = BL.V
NCPU = os.cpu_count() or 16

# ---------------------------------------------------------------------------
# property table.  'steps' is a list of driver runs; each step:
#   src      driver source (relative to /verif)
#   variant  library build variant (buildlib.VARIANTS)
#   defs     extra -D for the driver
#   name     step name (for the evidence)
#   kind     'mc' (default: a C driver using mc/mc.h) or 'py' (python callable)
# ---------------------------------------------------------------------------
CHECKS = {}

def check(pid, **kw):
    CHECKS[pid] = kw

RULE_LOCAL = ("strings are enumerated once each by the L1 odometer (all token strings up to the bound over the class alphabet); "
              "a string counts as non-trivial when it has >= 2 bytes and the reference automaton is still alive before its last byte "
              "(L2/L3/sweep strings, the scalar-surrounding product, the 'huge' lengths 2^8..2^32, the alignment sweep and the deep six-class strings of <= 10 (12) tokens are evaluated too but not counted here, they may repeat L1 strings; further steps repeat the automaton product after setlocale() to C.UTF-8 and to a single-byte locale compiled on the spot)")

check('C02', level='model_checking', steps=[dict(src='drv/local.c', variant='plain', defs=[], name='local-ascii'),
                                             # the same automaton product after setlocale(): a scanner that classifies bytes with the locale's <ctype.h> tables changes its language
                                             dict(src='drv/local.c', variant='plain', defs=[], name='local-ascii-latin1-locale', locale='eav_latin1', args=['--core']),
                                             dict(src='drv/local.c', variant='plain', defs=[], name='local-ascii-utf8-locale', locale='C.UTF-8', args=['--core'])],
      rule=RULE_LOCAL, deadline=dict(quick=240, thorough=3000),
      mc_keys=dict(states='ref_states', transitions='ref_transitions'))
import c20cli
check('C03', level='model_checking', steps=[dict(src='drv/local.c', variant='plain', defs=['-DC03'], name='local-6531'),
                                             # the shipped tool links its own copy of the UTF-8 decoder (bin/utf8_decode.c) in front of the library's: mode 6531 as a user of
                                             # bin/eav gets it is decided there - the UTF-8 strictness files of C20 plus every lead x second byte and all range edges
                                             dict(kind='py', name='cli-decoder', fn=c20cli.run_utf8, replay=c20cli.replay),
                                             dict(src='drv/local.c', variant='plain', defs=['-DC03'], name='local-6531-utf8-locale', locale='C.UTF-8', args=['--core', '--scalars']),
                                             dict(src='drv/local.c', variant='plain', defs=['-DC03'], name='local-6531-latin1-locale', locale='eav_latin1', args=['--core'])],
      rule=RULE_LOCAL, deadline=dict(quick=240, thorough=3000),
      mc_keys=dict(states='ref_states', transitions='ref_transitions'))

check('C04', level='exploration', steps=[dict(src='drv/c04.c', variant='plain', name='domain'),
                                           # the LABELS_ALLOW_UNDERSCORE build compiles another branch structure of the same scanner: all generators again, reference with '_' as a letter
                                           dict(src='drv/c04.c', variant='opt4', defs=['-DREF_OPTS=4'], name='domain-UNDERSCORE-build'),
                                           dict(src='drv/c04.c', variant='plain', name='domain-latin1-locale', locale='eav_latin1'),
                                           dict(src='drv/c04.c', variant='plain', name='domain-utf8-locale', locale='C.UTF-8')],
      rule=("every string is generated once per layer (L1 odometer over 8 classes; L2 base x position x byte; L3 length generators incl. the label-count sweep n = 1..140 equal labels of 1..63 characters, each also behind a 64-octet local part, and all-numeric names of 1..12 labels); "
            "non-trivial = L1 strings of >= 2 bytes containing a dot or hyphen (the structure rules are exercised); counted by the driver"),
      deadline=dict(quick=240, thorough=3000))

SHIMWRAP = '-Wl,--wrap=malloc,--wrap=free,--wrap=strndup,--wrap=strdup,--wrap=calloc'
check('C05', level='exploration', steps=[dict(src='drv/c05.c', variant='plain', name='literal'),
                                           # the other two back ends have their own copies of the result-record macros and of eav_is_email: the structured generators again on
                                           # those builds (stub IDN API of drv/shim.c, every malloc'ed block pre-filled with 0xA5 so that a forgotten flag reads as set)
                                           dict(src='drv/c05.c', variant='idnkit', name='literal-idnkit', extra_src=['drv/shim.c'], ldflags=[SHIMWRAP], args=['--structured-only']),
                                           dict(src='drv/c05.c', variant='idn', name='literal-idn', extra_src=['drv/shim.c'], ldflags=[SHIMWRAP], args=['--structured-only'])],
      rule=("each generator emits every case once (token odometers 'raw' and 'in', structured v4/v6 products with 27 group spellings and one or two extra dots at every position of 256 octet tuples, byte-position sweeps), every literal behind 3 local-part shapes, the part validators also with 14 tails after the end pointer; the structured generators again on the idn and idnkit builds with every malloc'ed block pre-filled; "
            "non-trivial = odometer strings that start with '[' (raw) or contain ':' or '.' (bracket content) and have >= 3 bytes; counted by the driver"),
      deadline=dict(quick=240, thorough=3000))

check('C01', level='exploration', steps=[dict(src='drv/c01.c', variant='plain', name='email')],
      rule=("each generator emits every case once (L1 odometer over 12 classes, L2 templates x bytes, every byte substituted at every position of 12 complete addresses, L3 length/placement generators, 'huge' lengths k*2^8+d and k*2^16+d - thorough also 2^24, 2^31, 2^32 - where a narrow counter wraps, the product local part 1..70 x domain 240..262), every case "
            "is run in 4 modes x tld_check off/on; non-trivial = L1 strings containing an '@' with bytes on both sides; counted by the driver"),
      deadline=dict(quick=240, thorough=3000))

import c11gen
check('C11', level='exploration', steps=[dict(src='drv/c11.c', variant='plain', name='table'),
                                           # the same look-ups on the `make debug` build (-D_DEBUG): trace statements compiled into the validators must not change an answer
                                           dict(src='drv/c11.c', variant='debug', name='table-debug-build'),
                                           dict(kind='py', name='generators', fn=c11gen.run)],
      rule=("finite artefact enumerated completely: every CSV row (5 case variants, through is_tld and through the four address validators), every table entry, every 1-3 character label, every one-edit "
            "neighbour / proper prefix / proper suffix of every row, every line of tld-domains.txt and raw.csv, every line of the regenerated files; "
            "non-trivial = row look-ups + file rows + generated lines compared (each distinct by construction)"),
      deadline=dict(quick=300, thorough=600))

check('C07', level='exploration', steps=[dict(src='drv/tld.c', variant='plain', name='tld'),
                                           # partial/idn and partial/idnkit carry their own copies of the TLD look-up of mode 6531: all generators again on those builds
                                           dict(src='drv/tld.c', variant='idnkit', name='tld-idnkit', extra_src=['drv/shim.c'], ldflags=[SHIMWRAP], args=['--only6531']),
                                           dict(src='drv/tld.c', variant='idn', name='tld-idn', extra_src=['drv/shim.c'], ldflags=[SHIMWRAP], args=['--only6531'])],
      rule=("every CSV row x 5 case variants x 0-4 preceding labels drawn from 8 label shapes, every near miss of every row (proper prefixes/suffixes, deletions, "
            "substitutions and insertions over [a-z0-9-]) after two different prefixes, every 1-3 character last label, every U-label of raw.csv in mode 6531, every row of the library's own tld_list as last label, the label-depth corpus (24 suffixes behind all sequences of 0-4 labels over 6 shapes, behind 5..126 one-letter labels, reserved-name prefixes/suffixes); "
            "distinct_nontrivial counts only the lower-/upper-case row spellings x prefixes, which are pairwise distinct by construction (near misses may repeat)"),
      deadline=dict(quick=300, thorough=1200))
check('C09', level='exploration', steps=[dict(src='drv/tld.c', variant='plain', defs=['-DC09'], name='reserved')],
      rule=("8 reserved suffixes x preceding label of every length 0..63 (5 contents incl. 7-letter words) x all 2^letters case patterns (1 label) / 5 patterns (2-3 labels, "
            "second label of every length 1..63, third label lengths 1..63 step), plus every one-edit neighbour of each suffix behind 9 prefixes in 2 cases, plus the label-depth corpus; "
            "distinct_nontrivial counts the kind-0 single-label family (pairwise distinct by construction)"),
      deadline=dict(quick=300, thorough=1200))

check('C08', level='exploration', steps=[dict(src='drv/c08.c', variant='plain', name='policy')],
      rule=("complete product: 2048 masks x 4 modes x tld_check on/off x {two real addresses per class present in punycode.csv, 3 reserved names, unlisted TLD, single label, "
            "IPv4/IPv6 literal, 4 syntactically invalid addresses} + with tld on a caller-installed callback returning each class 1..9, 0 and each negative code; plus the 'veto' product: 9 address corpora (incl. label depth and table rows) x 14 masks (0, all, default, each single bit) x tld on/off x 4 modes, four oracles; "
            "every tuple is distinct by construction and non-trivial (it exercises one arm of the policy switch with one mask)"),
      deadline=dict(quick=300, thorough=600))

check('C10', level='exploration', steps=[dict(src='drv/c10.c', variant='plain', name='idn')],
      rule=("domains are generated once each: all labels of 1-2 (thorough 1-3) symbols over 35 symbols (letters/digits of Cyrillic, Greek, Han, Hangul, Arabic, Hebrew, Devanagari, "
            "Latin-1 + a,1,-) in 1-3 label domains x 4 suffixes, every IDN TLD row in U- and A-form, all ASCII strings over {a,Z,1,-,.,xn--,com}, negative families, every Unicode scalar value as a label of its own and after a letter; "
            "non-trivial = multi-label generated domains (counted by the driver, pairwise distinct by construction)"),
      deadline=dict(quick=300, thorough=2400))

def build_shim(bdir, backend):
    """libhist_<backend>.so = unmodified library sources of that backend + drv/shim.c, malloc/free (and the idn2 conversion) wrapped"""
    variant = {'idn2': 'plain', 'idn': 'idn', 'idnkit': 'idnkit'}[backend]
    objs = BL.build_objects(bdir, variant, prefix='hist-' + backend)
    cc, cflags, be, vdefs = BL.VARIANTS[variant]
    bdefs, _ = BL.backend_flags(be)
    R = BL.repo()
    so = os.path.join(bdir, 'libhist_%s.so' % backend)
    wrap = '-Wl,--wrap=malloc,--wrap=free,--wrap=strndup,--wrap=strdup,--wrap=calloc' + (',--wrap=idn2_to_ascii_8z,--wrap=idn2_lookup_u8,--wrap=idn2_lookup_ul,--wrap=idn2_to_ascii_lz,--wrap=idn2_free' if backend == 'idn2' else '')
    cmd = [cc] + cflags + ['-std=gnu99', '-fPIC', '-shared', '-Wl,-Bsymbolic', '-Wl,-z,now', wrap, '-I' + os.path.join(R, 'include'), '-I' + R] + BL.BASE_DEFS + bdefs + \
          ['-o', so, os.path.join(V, 'drv', 'shim.c')] + objs + ['-lidn2']
    rc, out = BL.sh(cmd)
    if rc: raise RuntimeError('shim build failed: %s\n%s' % (' '.join(cmd), out))
    return so

def build_hist(bdir, step):
    exe = BL.build_driver(bdir, 'drv/hist.c', 'plain', objs=[], libs=('-lidn2',), out=os.path.join(bdir, step['name']))
    args = []
    for be in step['backends']:
        args += ['--lib', build_shim(bdir, be)]
    step['args'] = ['--prop', step['prop']] + args + step.get('xargs', [])
    return exe

RULE_HIST = ("explicit-state BFS: a state is the canonical serialisation of the whole eav_t (all fields, result record by value, callbacks by name, allocator/resolver ledgers) "
             "plus the harness model variables; every state is distinct by construction of the visited set; every transition is one real library call sequence replayed on a fresh poisoned object; "
             "distinct_nontrivial = number of distinct states reached (plus, for C19, the fault runs)")
check('C13', level='model_checking', steps=[dict(builder=build_hist, name='hist-c13', prop='C13', backends=['idn2']),
                                             dict(builder=build_hist, name='hist-c13-two-objects', prop='C13', backends=['idn2'], xargs=['--two-objects'])],
      rule=RULE_HIST + "; plus two complete pair products on real objects: every ordered pair of the 1296 addresses x@b.XY in 3 configurations, and every ordered pair of 150 feature addresses x every ordered pair "
           "of the 8 (mode, tld_check) configurations on two objects and on one (mode switch in between), each second outcome compared with the fresh-library-state outcome; and 17 class / form representatives x 14 masks x 4 modes right after each of the 150 feature addresses",
      deadline=dict(quick=240, thorough=2400),
      mc_keys=dict(states='states', transitions='transitions'), traces_key='histories_replayed')

check('C19', level='fault_enumeration', steps=[dict(builder=build_hist, name='hist-c19', prop='C19', backends=['idn2'])],
      rule=RULE_HIST + "; fault alphabet = 31 libidn2 return codes x {no output buffer, buffer allocated}, injected at the conversion call through -Wl,--wrap=idn2_to_ascii_8z; plus the fault corpus sweep: every address of seven corpora x tld on/off x three environment answers with the allocator ledger checked after the call and after eav_free",
      deadline=dict(quick=240, thorough=2400))
check('C18', level='model_checking', steps=[dict(builder=build_hist, name='hist-c18-lockstep', prop='C18', backends=['idn2', 'idn', 'idnkit']),
                                             dict(builder=build_hist, name='hist-c18-ctxfail', prop='C18', backends=['idnkit'], xargs=['--ctxfail']),
                                             dict(builder=build_hist, name='corpus-3-backends', prop='C18corpus', backends=['idn2', 'idn', 'idnkit'])],
      rule=RULE_HIST + "; lock-step: the state is the triple of the three backends' objects",
      deadline=dict(quick=240, thorough=2400),
      mc_keys=dict(states='states', transitions='transitions'), traces_key='histories_replayed')

WRAPPED = ['memcpy', 'memchr', 'strchr', 'strrchr', 'strspn', 'strlen', 'strncasecmp', 'malloc', 'free', 'strndup']
def build_esched(bdir, step):
    variant = step.get('variant', 'cov')
    objs = BL.build_objects(bdir, variant)
    so = os.path.join(bdir, 'libeav_%s.so' % variant.replace('-', '_'))
    rc, out = BL.sh(['clang', '-O1', '-fPIC', '-shared', '-Wl,-Bsymbolic', '-Wl,-z,now', '-Wl,' + ','.join('--wrap=' + w for w in WRAPPED), '-o', so,
                     os.path.join(V, 'sched', 'wraps.c')] + objs + ['-lidn2'])
    if rc: raise RuntimeError('libeav_cov link failed: ' + out)
    exe = os.path.join(bdir, step['name'])
    R = BL.repo()
    # premise of the write-set oracle (sched/esched.c): the library has no synchronisation of its own.  Decided from the tree, not assumed: lock /
    # once / semaphore imports of the objects, and atomics (which leave no import) by their spelling in the sources.
    import re as _re
    has_sync = 0
    for o in objs:
        rc2, out2 = BL.sh(['nm', '-u', o])
        if _re.search(r'\b(pthread_(mutex|rwlock|spin|once|cond|barrier)\w*|call_once|mtx_\w+|cnd_\w+|sem_(wait|post|init)|__atomic_\w+|__sync_\w+)\b', out2): has_sync = 1
    for d in ('src', 'partial/idn2', 'include', 'include/eav'):
        dd = os.path.join(R, d)
        for f in (os.listdir(dd) if os.path.isdir(dd) else []):
            if f.endswith(('.c', '.h')) and _re.search(r'_Atomic|stdatomic\.h|__atomic_|__sync_|atomic_(load|store|exchange|compare|fetch|flag)|pthread_|<threads\.h>', open(os.path.join(dd, f), errors='replace').read()): has_sync = 1
    cmd = ['clang', '-O1', '-g', '-std=gnu99', '-Wall', '-Wno-unused-function', '-I' + os.path.join(R, 'include'), '-I' + R, '-DHAVE_LIBIDN2', '-DLIB_HAS_SYNC=%d' % has_sync] + BL.BASE_DEFS + \
          ['-o', exe, os.path.join(V, 'sched', 'esched.c'), so, '-Wl,-rpath,' + bdir, '-Wl,--export-dynamic', '-lidn2', '-lpthread', '-ldl']
    rc, out = BL.sh(cmd)
    if rc: raise RuntimeError('esched build failed: %s\n%s' % (' '.join(cmd), out))
    return exe

import c14tsan, c14imports
check('C14', level='model_checking', steps=[dict(builder=build_esched, name='esched'), dict(builder=build_esched, name='esched-options', variant='cov-opt7'), dict(kind='py', name='tsan', fn=c14tsan.run), dict(kind='py', name='tsan-options', fn=c14tsan.run_opt7), dict(kind='py', name='tsan-idn', fn=c14tsan.run_idn), dict(kind='py', name='tsan-idnkit', fn=c14tsan.run_idnkit),
                                             dict(kind='py', name='imports', fn=c14imports.run)],
      rule=("a state is (scheduling points passed by each thread, digest of all memory the threads share); states are distinct by construction of the visited set; "
            "every execution is a complete run of real pthreads under the controlled scheduler; distinct_nontrivial = distinct states reached over all harnesses; the scheduler's model of libc (every call one atomic step without hidden state) is closed by enumerating the import table of the library objects against the MT-Unsafe list"),
      deadline=dict(quick=240, thorough=3000),
      mc_keys=dict(states='states', transitions='transitions'), traces_key='schedules_executed')

RULE_CORPUS = ("the nine corpora of drv/corpus.h, each a complete enumeration of a stated finite space (token odometers over the class alphabets of C01-C05/C12, "
               "every table row / reserved name x prefixes, IDN label products, every byte at every template position, length ladders), each address in 4 modes x tld_check off/on; "
               "addresses are distinct within a corpus by construction; non-trivial = addresses with a non-empty local part before the last '@' (counted by the driver)")
check('C12', level='exploration', steps=[dict(src='drv/sinks.c', variant='plain', defs=['-DSINK=12'], name='cross-mode')],
      rule=RULE_CORPUS + "; C12 counts only pure-ASCII addresses without quote/backslash in the local part as non-trivial", deadline=dict(quick=300, thorough=3000))
check('C16', level='exploration', steps=[dict(src='drv/sinks.c', variant='plain', defs=['-DSINK=16'], name='result-record'),
                                           dict(src='drv/sinks.c', variant='extra', defs=['-DSINK=16'], name='result-record-EAV_EXTRA'),
                                           # the EAV_EXTRA blocks exist once per back end: the same invariants on the idn and idnkit builds (stub IDN API of drv/shim.c, poisoned malloc)
                                           dict(src='drv/sinks.c', variant='idn-extra', defs=['-DSINK=16'], name='result-record-EAV_EXTRA-idn', extra_src=['drv/shim.c'], ldflags=[SHIMWRAP]),
                                           dict(src='drv/sinks.c', variant='idnkit-extra', defs=['-DSINK=16'], name='result-record-EAV_EXTRA-idnkit', extra_src=['drv/shim.c'], ldflags=[SHIMWRAP])],
      rule=RULE_CORPUS, deadline=dict(quick=300, thorough=3000))
check('C15', level='exploration', steps=[dict(src='drv/sinks.c', variant='plain', defs=['-DSINK=15'], name='diagnostics'),
                                           dict(builder=build_hist, name='hist-c15', prop='C15', backends=['idn2', 'idn', 'idnkit'])],
      rule=RULE_CORPUS + "; plus eav_setup over 14 rfc values x 5 prior modes x 3 backends", deadline=dict(quick=300, thorough=3000))

def build_c17(bdir, step):
    exe = BL.build_driver(bdir, 'drv/c17.c', 'plain', objs=[], libs=('-lidn2',), out=os.path.join(bdir, step['name']))
    args = []
    for i in range(8):
        args += ['--var', BL.build_shared(bdir, 'opt%d' % i)]
    step['args'] = args + list(step.get('xargs', []))
    return exe
import c17make
check('C17', level='exploration', steps=[dict(builder=build_c17, name='options'), dict(kind='py', name='makefile', fn=c17make.run),
                                           # the side-by-side comparison again after setlocale() to a single-byte locale: an option that classifies bytes with <ctype.h> changes more than it documents there
                                           dict(builder=build_c17, name='options-latin1-locale', locale='eav_latin1', xargs=['--light']),
                                           # what the UNDERSCORE option must NOT change: reserved names and TLD classes of names that have a '_' in a front label (C09's generators on that build)
                                           dict(src='drv/tld.c', variant='opt4', defs=['-DC09', '-DREF_OPTS=4'], name='reserved-names-UNDERSCORE-build'),
                                           # the option builds against the reference automaton WITH the option (C03's product, W-method suite and token strings): every byte in
                                           # every state of the scanner as that build compiles it
                                           dict(src='drv/local.c', variant='opt1', defs=['-DC03', '-DREF_OPTS=1'], name='dfa-RFC5322-build', args=['--core']),
                                           dict(src='drv/local.c', variant='opt2', defs=['-DC03', '-DREF_OPTS=2'], name='dfa-RFC20-build', args=['--core']),
                                           dict(src='drv/local.c', variant='opt3', defs=['-DC03', '-DREF_OPTS=3'], name='dfa-RFC5322+RFC20-build', args=['--core'])],
      rule=RULE_CORPUS + "; every address is run through the 8 option builds side by side; non-trivial = addresses that can trigger an option (an RFC 20 character, '_' in a host name, control/whitespace in the local part)",
      deadline=dict(quick=300, thorough=3000))

ASAN_ENV = {'ASAN_OPTIONS': 'detect_leaks=1:abort_on_error=0:exitcode=77:allocator_may_return_null=1:detect_stack_use_after_return=0', 'UBSAN_OPTIONS': 'print_stacktrace=1:halt_on_error=1', 'LSAN_OPTIONS': 'leak_check_at_exit=0'}
COSTWRAP = '-Wl,' + ','.join('--wrap=' + w for w in ['memcpy', 'memchr', 'strchr', 'strrchr', 'strspn', 'strncasecmp', 'strlen'])
check('C06', level='exploration', steps=[
          dict(src='drv/c06.c', variant='asan', name='asan-ubsan-lsan', env=ASAN_ENV),
          # the branches that only exist in option builds (RFC6531_FOLLOW_RFC5322 look-ahead / look-behind, RFC 20 cases, '_' in labels) under the same sanitizers,
          # on the corpora in which local-part and label bytes vary
          dict(src='drv/c06.c', variant='asan-opt7', name='asan-ubsan-options-build', env=ASAN_ENV, args=['--light']),
          dict(src='drv/c06.c', variant='plain', defs=['-DGUARD'], name='guard-pages'),
          # reads of uninitialised memory (a stack buffer compared before it was written ...) are undefined behaviour that ASan does not see: the ASCII modes and
          # the ASCII part validators under MemorySanitizer (libidn2 is not instrumented, so mode 6531 stays with ASan / valgrind)
          dict(src='drv/c06.c', variant='msan', defs=['-DASCII_ONLY'], name='msan-ascii-modes', env={'MSAN_OPTIONS': 'exitcode=77:halt_on_error=1:print_stats=0'}),
          dict(src='drv/c06cost.c', variant='covbb', name='linear-work', ldflags=[COSTWRAP]),
          dict(builder=build_hist, name='hist-memcheck', prop='C13', backends=['idn2'], xargs=['--maxdepth', '3', '--nopoison'],
               cmdprefix=['valgrind', '-q', '--error-exitcode=9', '--undef-value-errors=yes', '--leak-check=no', '--child-silent-after-fork=no']),
      ],
      rule=RULE_CORPUS + "; every input is placed in a fresh exact-size heap buffer (ASan/UBSan/LSan build) and against PROT_NONE guard pages on both sides (plain build), and driven through all public entry points",
      deadline=dict(quick=420, thorough=3000))

import c20cli
check('C20', level='exploration', steps=[dict(kind='py', name='cli', fn=c20cli.run, replay=c20cli.replay)],
      rule=("files = all sequences of 0..k lines (k=2 quick, 3 thorough) over the line-shape menu x {LF, CRLF} per line x final newline present/absent, plus long-line files "
            "(1023..8192 bytes, ASCII and multi-byte, one straddling byte 2048; every line length within 6 of each power of two 128..4096; a 2-/3-/4-byte character at every offset 0..w+1 before each multiple of 256..8192; lines of 64 KiB and 1 MiB; files of thousands of lines) and NUL-containing files; files are de-duplicated, so every file is distinct; non-trivial = files with at least one terminated line and > 2 bytes"),
      deadline=dict(quick=300, thorough=2400))

# ---------------------------------------------------------------------------
def load_findings():
    p = os.path.join(V, 'known_findings.json')
    if not os.path.exists(p):
        return []
    return json.load(open(p)).get('findings', [])

def write_case(path, prop, step, c):
    os.makedirs(os.path.dirname(path), exist_ok=True)
    with open(path, 'w') as f:
        f.write('property=%s\nstep=%s\nsub=%s\nwhy=%s\ncfg=%s\nmsg=%s\ntext=%s\nhex=%s\n' % (
            prop, step, c.get('sub', ''), c.get('why', ''), c.get('cfg', ''), c.get('msg', ''), c.get('text', ''), c.get('hex', '')))

def read_case(path):
    d = {}
    for line in open(path, errors='replace'):
        line = line.rstrip('\n')
        if '=' in line:
            k, v = line.split('=', 1); d[k] = v
    return d

def build_step(bdir, step):
    kind = step.get('kind', 'mc')
    if kind == 'py':
        return None
    if step.get('locale'):
        # the process locale as an environment input: 'eav_latin1' is compiled on the spot (lib/buildlib.py build_locale), 'C.UTF-8' is built into glibc
        env = dict(step.get('env', {})); loc = step['locale']
        if loc == 'eav_latin1':
            ldir = BL.build_locale(bdir)
            if ldir: env['LOCPATH'] = ldir
            else: loc = 'C.UTF-8'
        env['MC_LOCALE'] = loc; step['env'] = env
    builder = step.get('builder')
    if builder:
        return builder(bdir, step)
    return BL.build_driver(bdir, step['src'], step.get('variant', 'plain'), step.get('defs', []),
                           out=os.path.join(bdir, step['name']), extra_src=step.get('extra_src', ()),
                           libs=step.get('libs', ('-lidn2',)), ldflags=step.get('ldflags', ()))

def run_step(exe, step, tier, out, known_ids, deadline, env=None):
    cmd = step.get('cmdprefix', []) + [exe, '--tier', tier, '--out', out, '--workers', str(NCPU), '--deadline', str(deadline)]
    if known_ids:
        cmd += ['--known', ','.join(known_ids)]
    cmd += step.get('args', [])
    e = dict(os.environ); e.update(step.get('env', {}))
    if env: e.update(env)
    r = subprocess.run(cmd, env=e, stdout=subprocess.PIPE, stderr=subprocess.STDOUT, text=True, errors='replace')
    return r.returncode, r.stdout

def embedded_strings(bdir):
    """Every printable string of >= 2 characters compiled into the library objects of the working tree (strings(1) over the plain build): a name the
    library treats specially has to be spelled somewhere in its read-only data.  The corpus phase 'embed' (drv/corpus.h) turns them into last labels,
    second-level labels and pairs; the file path is handed to the drivers through MC_EMBED."""
    path = os.path.join(bdir, 'embedded.txt')
    if not os.path.exists(path):
        objs = BL.build_objects(bdir, 'plain', prefix='embed')
        seen = set()
        for o in objs:
            if os.path.basename(o).startswith('src_auto_tld'): continue      # the TLD table itself is walked row by row elsewhere
            rc, out = BL.sh(['strings', '-n', '2', o])
            for l in out.splitlines():
                for w in re.split(r'[^A-Za-z0-9-]+', l):
                    if 2 <= len(w) <= 63 and not w.startswith('-') and not w.endswith('-'): seen.add(w.lower())
        with open(path, 'w') as f:
            f.write('\n'.join(sorted(seen)) + '\n')
    os.environ['MC_EMBED'] = path
    return path

def run_check(pid, tier):
    if pid not in CHECKS:
        print('unknown property %s' % pid); return 2
    cfg = CHECKS[pid]
    t0 = time.time()
    seed = int(os.environ.get('VERIF_SEED', '0') or 0)
    bdir = os.path.join(V, 'build', '%s-%s-%d' % (pid, tier, os.getpid()))
    os.makedirs(bdir, exist_ok=True)
    evpath = os.path.join(V, 'evidence', pid + '.json')
    os.makedirs(os.path.dirname(evpath), exist_ok=True)
    findings = [f for f in load_findings() if f.get('property') == pid]
    known = [f for f in findings if f.get('status') == 'known']
    known_ids = [f['id'] for f in known]
    total_deadline = cfg.get('deadline', {}).get(tier, 600)
    results = []; exes = {}
    viol_lines = []; known_lines = []; harness_err = None
    try:
        embedded_strings(bdir)
        for step in cfg['steps']:
            if tier not in step.get('tiers', ('quick', 'thorough')):
                continue
            remaining = max(5.0, total_deadline - (time.time() - t0))
            if step.get('kind') == 'py':
                res = step['fn'](bdir, tier, known_ids, remaining)
                res.setdefault('driver', step['name'])
                results.append((step, res)); continue
            exe = build_step(bdir, step)
            exes[step['name']] = exe
            out = os.path.join(bdir, step['name'] + '.json')
            rc, log = run_step(exe, step, tier, out, known_ids, remaining)
            if rc not in (0, 1) or not os.path.exists(out):
                harness_err = 'step %s exited %d\n%s' % (step['name'], rc, log[-4000:]); break
            try:
                res = json.load(open(out))
            except Exception as ex:
                harness_err = 'step %s wrote unreadable JSON: %s' % (step['name'], ex); break
            res['log'] = log[-2000:]
            results.append((step, res))
        if harness_err:
            print('HARNESS-ERROR property=%s %s' % (pid, harness_err)); return 2

        # ---- violations: write replay files, confirm in a fresh process ----
        rdir = os.path.join(V, 'replays', pid)
        shutil.rmtree(rdir, ignore_errors=True)
        n = 0
        unknown_classes = 0; known_counts = {}
        for step, res in results:
            clsmap = {c['key']: c for c in res.get('classes', [])}
            seen = set()
            for c in res.get('violations', []):
                key = '%s|%s' % (c.get('why') or c.get('sub'), c.get('known', ''))
                cl = clsmap.get(key, {'count': 1, 'is_known': 0})
                if cl.get('is_known'):
                    known_counts.setdefault(c['known'], [0, c])
                    if key not in seen: known_counts[c['known']][0] += cl['count']
                    seen.add(key); continue
                if key in seen: continue
                seen.add(key); n += 1
                path = os.path.join(rdir, '%d.case' % n)
                write_case(path, pid, step['name'], c)
                ok = None
                if step.get('kind') != 'py' and step['name'] in exes and not c.get('sub', '').startswith('noreplay'):
                    e = dict(os.environ); e.update(step.get('env', {}))
                    r = subprocess.run(step.get('cmdprefix', []) + [exes[step['name']], '--replay', path] + step.get('args', []), env=e, stdout=subprocess.PIPE, stderr=subprocess.STDOUT, text=True, errors='replace')
                    ok = (r.returncode != 0)
                    if not ok:
                        print('HARNESS-ERROR property=%s violation did not reproduce on replay: %s (%s)' % (pid, path, c.get('msg')))
                        harness_err = 'non-reproducing violation'
                        continue
                unknown_classes += 1
                if len(viol_lines) < 12:
                    viol_lines.append('VIOLATION property=%s replay=%s   [%s] %s  input=%s  (%d cases in this class)' % (
                        pid, path, c.get('why') or c.get('sub'), c.get('msg'), c.get('text'), cl['count']))
        # ---- known findings ----
        for f in known:
            cnt = known_counts.get(f['id'], [0, None])[0]
            known_lines.append('KNOWN-FINDING: property=%s %s: %s (witness %s; %d enumerated cases matched in this run)' % (
                pid, f['id'], f.get('what', ''), f.get('witness', ''), cnt))

        # ---- evidence ----
        ev = assemble_evidence(pid, cfg, tier, seed, results, time.time() - t0, unknown_classes, known_lines)
        with open(evpath, 'w') as f:
            json.dump(ev, f, indent=1)
        for l in known_lines: print(l)
        for l in viol_lines: print(l)
        cov = ev['coverage']
        print('%s %s: evaluations=%d distinct_nontrivial=%d exhaustive=%s wall=%.1fs violations(classes)=%d known=%d' % (
            pid, tier, cov['evaluations'], cov['distinct_nontrivial'], cov['exhaustive'], ev['wall_s'], unknown_classes, len(known_lines)))
        if harness_err: return 2
        for step, res in results:
            if not res.get('all_phases_complete', 1) and not res.get('deadline_hit') and not res.get('classes'):
                print('HARNESS-ERROR property=%s step %s left a phase incomplete without a deadline and without a recorded violation' % (pid, step['name'])); return 2
        return 1 if unknown_classes else 0
    except RuntimeError as ex:
        print('HARNESS-ERROR property=%s %s' % (pid, ex)); return 2
    finally:
        if not os.environ.get('VERIF_KEEP'):
            shutil.rmtree(bdir, ignore_errors=True)

def manifest_note(pid):
    try:
        m = json.load(open(os.path.join(V, 'MANIFEST.json')))
        for c in m['checks']:
            if c['property_id'] == pid: return [c['level_note']]
    except Exception:
        pass
    return []

def assemble_evidence(pid, cfg, tier, seed, results, wall, nviol, known_lines):
    counters = {}; phases = []; samples = []; extra = {}
    complete = True
    for step, res in results:
        for k, v in res.get('counters', {}).items():
            counters[k] = counters.get(k, 0) + v
        for p in res.get('phases', []):
            p = dict(p); p['step'] = step['name']; phases.append(p)
            if not p.get('complete'): complete = False
        if res.get('deadline_hit'): complete = False
        for s in res.get('samples', []):
            samples.append({'step': step['name'], 'sub': s.get('sub'), 'cfg': s.get('cfg'), 'input': s.get('text'), 'note': s.get('msg')})
        for k, v in res.get('extra', {}).items():
            extra[k] = v
    ev_n = int(counters.get('evaluations', 0)); nt = int(counters.get('distinct_nontrivial', 0))
    cov = {
        'evaluations': ev_n,
        'distinct_nontrivial': nt,
        'rule': cfg.get('rule', ''),
        'samples': samples[:24] if samples else [{'note': 'no sample recorded'}],
        'exhaustive': bool(complete),
        'phases': phases,
        'counters': counters,
        'detail': extra,
    }
    mk = cfg.get('mc_keys')
    if mk:
        for k, src in mk.items():
            v = extra.get(src, counters.get(src))
            if v is not None: cov[k] = int(v)
        cov['traces_validated_against_impl'] = int(counters.get(cfg.get('traces_key', 'evaluations'), ev_n))
    if not complete:
        cov['explanation'] = 'global deadline hit: only the phases marked complete were covered; the others are not claimed'
    ev = {
        'property_id': pid, 'tier': tier, 'seed': seed, 'level': cfg['level'],
        'coverage': cov,
        'assumptions': cfg.get('assumptions', []) or manifest_note(pid),
        'wall_s': round(wall, 2),
        'violations': nviol,
        'known_findings': known_lines,
    }
    return ev

# ---------------------------------------------------------------------------
def replay(path):
    c = read_case(path)
    pid = c.get('property'); stepname = c.get('step')
    cfg = CHECKS.get(pid)
    if not cfg: print('unknown property in case file'); return 2
    step = [s for s in cfg['steps'] if s['name'] == stepname]
    if not step: print('unknown step'); return 2
    step = step[0]
    bdir = os.path.join(V, 'build', 'replay-%d' % os.getpid())
    os.makedirs(bdir, exist_ok=True)
    try:
        if step.get('kind') == 'py':
            return step['replay'](bdir, path)
        exe = build_step(bdir, step)
        e = dict(os.environ); e.update(step.get('env', {}))
        r = subprocess.run([exe, '--replay', path] + step.get('args', []), env=e)
        return r.returncode
    finally:
        shutil.rmtree(bdir, ignore_errors=True)

def setup():
    os.makedirs(os.path.join(V, 'build'), exist_ok=True)
    os.makedirs(os.path.join(V, 'evidence'), exist_ok=True)
    for tool in ('gcc', 'clang', 'python3'):
        if not shutil.which(tool):
            print('missing tool: ' + tool); return 1
    print('setup ok'); return 0

def mutants(args):
    print('see seeded/ and MUTANTS.md'); return 0
