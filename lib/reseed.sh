#!/bin/bash
# usage: lib/reseed.sh <seed name> ID [ID...]   - apply seeded/<name>/patch.diff to /repo, run the quick checks, undo
name=$1; shift
git -C /repo apply /verif/seeded/$name/patch.diff || { echo "apply failed"; exit 2; }
for id in "$@"; do o=$(/verif/run $id ${TIER:-quick} 2>&1); rc=$?; echo "$o" | grep -E "^VIOLATION|HARNESS" | head -2 | cut -c1-250; echo "  -> $name: check $id exit=$rc"; done
git -C /repo checkout -- .; git -C /repo status --short | head -2
