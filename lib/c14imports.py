"""C14, third step: closure of the scheduler's model of libc.

E-SCHED treats every libc call the library makes as one atomic step that touches only its arguments (sched/wraps.c), and ThreadSanitizer does not
see inside libc either.  That model is only sound if the library imports no libc function with hidden process-wide state.  The import table
of the library objects built from the working tree is finite: every undefined symbol of every object is enumerated (nm -u) and looked up in the
list of functions the glibc manual / POSIX mark MT-Unsafe because of static state (strtok, rand, localtime, strerror's buffer, getenv/setenv,
setlocale, ...).  A hit is an unsynchronised access to shared mutable memory made on the library's behalf: a violation of C14 whatever the
schedule.  Imports that are neither modelled by sched/wraps.c nor on the list are reported in the evidence (informational)."""
import os, time, re
import buildlib as BL

MT_UNSAFE = {
 'strtok': 'static save pointer', 'rand': 'hidden generator state', 'srand': 'hidden generator state', 'random': 'hidden generator state', 'srandom': 'hidden generator state',
 'drand48': 'hidden state', 'lrand48': 'hidden state', 'mrand48': 'hidden state', 'srand48': 'hidden state', 'seed48': 'hidden state', 'lcong48': 'hidden state',
 'localtime': 'static struct tm', 'gmtime': 'static struct tm', 'asctime': 'static buffer', 'ctime': 'static buffer', 'tzset': 'global tz state',
 'setlocale': 'global locale', 'getenv': 'races with setenv', 'setenv': 'environment', 'putenv': 'environment', 'unsetenv': 'environment', 'clearenv': 'environment',
 'strsignal': 'static buffer', 'tmpnam': 'static buffer', 'ttyname': 'static buffer', 'ctermid': 'static buffer', 'cuserid': 'static buffer', 'getlogin': 'static buffer',
 'readdir': 'stream state', 'getpwnam': 'static struct', 'getpwuid': 'static struct', 'getgrnam': 'static struct', 'getgrgid': 'static struct', 'getpwent': 'static', 'getgrent': 'static',
 'gethostbyname': 'static struct', 'gethostbyaddr': 'static struct', 'getservbyname': 'static struct', 'getprotobyname': 'static struct', 'inet_ntoa': 'static buffer',
 'crypt': 'static buffer', 'ecvt': 'static buffer', 'fcvt': 'static buffer', 'gcvt': 'static buffer', 'l64a': 'static buffer', 'basename': 'may use static buffer', 'dirname': 'may use static buffer',
 'mblen': 'static shift state', 'mbtowc': 'static shift state', 'wctomb': 'static shift state', 'mbrlen': 'static state when ps is NULL', 'mbrtowc': 'static state when ps is NULL',
 'mbsrtowcs': 'static state when ps is NULL', 'wcrtomb': 'static state when ps is NULL', 'wcsrtombs': 'static state when ps is NULL', 'wcstombs': 'static shift state', 'mbstowcs': 'static shift state',
 'nl_langinfo': 'static buffer', 'getopt': 'optind/optarg globals', 'getopt_long': 'optind/optarg globals', 'strfry': 'hidden generator', 'lgamma': 'signgam', 'lgammaf': 'signgam', 'lgammal': 'signgam',
 'hcreate': 'global table', 'hsearch': 'global table', 'hdestroy': 'global table', 'getdate': 'static struct', 'getutent': 'static', 'ptsname': 'static buffer', 'catgets': 'static', 'dlerror': 'static buffer',
 'strerror': 'static buffer for unknown codes (POSIX: need not be thread-safe)', 'getc_unlocked': 'unlocked stream', 'putc_unlocked': 'unlocked stream', 'getchar_unlocked': 'unlocked stream', 'putchar_unlocked': 'unlocked stream',
 'atexit': 'global list', 'on_exit': 'global list', 'signal': 'process-wide disposition', 'umask': 'process-wide', 'chdir': 'process-wide', 'rewinddir': 'stream state', 'setkey': 'global key', 'encrypt': 'global key',
}

def run(bdir, tier, known_ids, deadline):
    t0 = time.time()
    objs = BL.build_objects(bdir, 'plain', prefix='imports')
    modelled = set(re.findall(r'\bW[0-9A-Z]*\(\s*[^,]+,\s*(\w+)\s*,', open(os.path.join(BL.V, 'sched', 'wraps.c')).read())) | {'malloc', 'free', 'calloc', 'realloc'}
    res = {'counters': {}, 'phases': [], 'violations': [], 'classes': [], 'samples': [], 'extra': {}}
    defined = set(); imports = {}
    for o in objs:
        rc, out = BL.sh(['nm', '--defined-only', o])
        for l in out.splitlines():
            p = l.split()
            if len(p) == 3: defined.add(p[2])
    for o in objs:
        rc, out = BL.sh(['nm', '-u', o])
        if rc: raise RuntimeError('nm failed on ' + o)
        for l in out.splitlines():
            p = l.split()
            if len(p) == 2 and p[0] in ('U', 'w'):
                name = p[1].split('@')[0]
                if name not in defined: imports.setdefault(name, []).append(os.path.basename(o))
    for name, where in sorted(imports.items()):
        base = re.sub(r'^__(?:isoc99_)?', '', name)
        if name in MT_UNSAFE or base in MT_UNSAFE:
            why = MT_UNSAFE.get(name) or MT_UNSAFE.get(base)
            res['classes'].append({'key': 'imports:mt-unsafe-libc-function:' + name + '|', 'count': len(where), 'is_known': 0})
            res['violations'].append({'sub': 'noreplay-imports', 'why': 'imports:mt-unsafe-libc-function:' + name, 'known': '', 'cfg': '',
                                      'msg': ('the library calls %s() (%s): process-wide state written without synchronisation whenever two threads validate; objects: %s' % (name, why, ', '.join(where)))[:190],
                                      'text': name, 'hex': ''})
    unmodelled = sorted(n for n in imports if n not in modelled and not n.startswith('idn') and not n.startswith('__stack_chk') and n not in MT_UNSAFE and n != '_GLOBAL_OFFSET_TABLE_')
    res['counters'] = {'evaluations': len(imports), 'distinct_nontrivial': len(imports), 'imported_symbols': len(imports), 'imports_modelled_by_the_scheduler': len([n for n in imports if n in modelled])}
    res['extra'] = {'imports': sorted(imports), 'imports_not_modelled_as_scheduling_points': unmodelled}
    res['samples'].append({'sub': 'imports', 'cfg': '', 'text': ' '.join(sorted(imports))[:300], 'msg': 'undefined symbols of the library objects (nm -u)'})
    res['phases'].append({'name': 'import table of the library objects against the MT-Unsafe list (%d entries)' % len(MT_UNSAFE), 'shards': len(objs), 'done': len(objs), 'complete': True, 'evaluations': len(imports), 'wall_s': round(time.time() - t0, 2)})
    return res
