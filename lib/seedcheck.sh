#!/bin/bash
# usage: lib/seedcheck.sh <name> <property> <seed_dir> '<demo command run from the tree root>' [extra check IDs...]
# 1. confirms in a scratch copy of /repo: demo exits 0 on the original; with the patch: builds, `make check` passes, demo exits non-zero
# 2. applies the patch to /repo itself, runs the property's quick check (+ extras), undoes it (git checkout -- .)
# 3. files everything under /verif/seeded/<name>/
set -u
name=$1; prop=$2; sd=$3; demo=$4; shift 4; extra="$@"
S=$(mktemp -d /tmp/seedchk-XXXXXX); out=/verif/seeded/$name; mkdir -p $out
if [ -n "${SEED_SCRATCH:-}" ]; then mkdir -p $S/t; git -C /repo archive HEAD | tar -x -C $S/t      # the committed tree: /repo's working tree may hold a seed patch of a concurrent reseed run
else rsync -a --exclude .git /repo/ $S/t/; fi
mkdir -p $S/t/_seed; cp -r $sd/. $S/t/_seed/ 2>/dev/null
cd $S/t
( make clean >/dev/null 2>&1; make >/dev/null 2>&1 ) || { echo "original does not build"; }
bash -c "$demo" > $S/demo_orig.log 2>&1; d0=$?
patch -p1 -s < _seed/patch.diff || { echo "PATCH DOES NOT APPLY"; rm -rf $S; exit 2; }
( make clean >/dev/null 2>&1; make >/dev/null 2>&1 ); b=$?
make check > $S/suite.log 2>&1; s=$?
bash -c "$demo" > $S/demo_changed.log 2>&1; d1=$?
echo "seed $name: build=$b suite_exit=$s demo_original=$d0 demo_changed=$d1"
cd /verif
res=""
if [ $b -eq 0 ] && [ $s -eq 0 ] && [ $d0 -eq 0 ] && [ $d1 -ne 0 ]; then
  # SEED_SCRATCH=1: run the checks against the patched scratch copy (REPO=...) instead of patching /repo itself - used while a
  # background job is reading /repo; lib/reseed_all.sh later repeats every seed against /repo proper
  if [ -z "${SEED_SCRATCH:-}" ]; then git -C /repo apply $sd/patch.diff || { echo "git apply failed"; rm -rf $S; exit 2; }; fi
  for id in $prop $extra; do
    if [ -n "${SEED_SCRATCH:-}" ]; then o=$(REPO=$S/t /verif/run $id quick 2>&1); rc=$?; else o=$(/verif/run $id quick 2>&1); rc=$?; fi
    echo "$o" | grep -E "^VIOLATION|^KNOWN|HARNESS" | head -3 | cut -c1-260
    echo "  -> check $id exit=$rc"
    res="$res{\"check\":\"$id\",\"tier\":\"quick\",\"exit\":$rc,\"first_line\":$(echo "$o" | grep -E '^VIOLATION|HARNESS' | head -1 | cut -c1-300 | python3 -c 'import json,sys; print(json.dumps(sys.stdin.read().strip()))')},"
  done
  if [ -z "${SEED_SCRATCH:-}" ]; then git -C /repo checkout -- . ; git -C /repo status --short | head -3; fi
else echo "  NOT CONFIRMED - seed rejected"; fi
cp $sd/patch.diff $out/; for f in $sd/demo.* $sd/NOTES.md; do [ -f $f ] && cp $f $out/; done
tail -3 $S/demo_changed.log > $out/demo_changed.tail.txt; tail -3 $S/suite.log > $out/suite.tail.txt
python3 - "$name" "$prop" "$demo" "$b" "$s" "$d0" "$d1" "[${res%,}]" <<'PY'
import sys, json
name, prop, demo, b, s, d0, d1, res = sys.argv[1:9]
meta = {"seed": name, "property": prop, "source": "written by an independent sub-agent that saw only the property text and a scratch worktree",
        "demo_command": demo, "confirmed": {"builds": b == "0", "repo_suite_exit": int(s), "demo_exit_on_original": int(d0), "demo_exit_on_changed": int(d1)},
        "what_it_needs_to_manifest": "see NOTES.md", "checks_run_with_patch_applied_to_/repo": json.loads(res)}
json.dump(meta, open('/verif/seeded/%s/meta.json' % name, 'w'), indent=1)
PY
rm -rf $S
