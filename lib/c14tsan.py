"""C14, second step: free-running ThreadSanitizer pass (sched/tsanrun.c)."""
import os, subprocess, glob, time, re
import buildlib as BL
V = BL.V

def run(bdir, tier, known_ids, deadline, variant='tsan'):
    t0 = time.time(); R = BL.repo()
    objs = BL.build_objects(bdir, variant)
    exe = os.path.join(bdir, 'tsanrun-' + variant)
    bdefs, _ = BL.backend_flags(BL.VARIANTS[variant][2])
    extra = [] if variant in ('tsan', 'tsan-opt7') else [os.path.join(V, 'sched', 'idnstub_mt.c')]      # the other back ends run on thread-safe stand-ins for their IDN library
    cmd = ['clang', '-O1', '-g', '-fsanitize=thread', '-std=gnu99', '-Wno-unused-function', '-I' + os.path.join(R, 'include'), '-I' + R, '-I' + os.path.join(V, 'sched')] + bdefs + BL.BASE_DEFS + \
          ['-o', exe, os.path.join(V, 'sched', 'tsanrun.c')] + extra + objs + ['-lidn2', '-lpthread']
    rc, out = BL.sh(cmd)
    if rc: raise RuntimeError('tsanrun build failed: ' + out)
    logp = os.path.join(bdir, 'tsanlog-' + variant)
    env = dict(os.environ); env['TSAN_OPTIONS'] = 'log_path=%s exitcode=0 halt_on_error=0 report_signal_unsafe=0 history_size=4' % logp
    p = subprocess.run([exe, tier], env=env, stdout=subprocess.PIPE, stderr=subprocess.STDOUT, text=True, errors='replace', timeout=max(60, deadline))
    res = {'counters': {}, 'phases': [], 'violations': [], 'classes': [], 'samples': [], 'extra': {}}
    def viol(why, msg, text=''):
        key = why + '|'
        for c in res['classes']:
            if c['key'] == key: c['count'] += 1; return
        res['classes'].append({'key': key, 'count': 1, 'is_known': 0})
        res['violations'].append({'sub': 'noreplay-tsan', 'why': why, 'known': '', 'cfg': '', 'msg': msg[:190], 'text': text[:300], 'hex': ''})
    m = re.search(r'TSANRUN evaluations=(\d+) logdiffs=(\d+) addresses=(\d+) configs=(\d+)', p.stdout)
    if p.returncode != 0 or not m:
        viol('tsan-run-crashed', 'tsanrun exited %d: %s' % (p.returncode, p.stdout[-300:]))
        evals = 0
    else:
        evals = int(m.group(1))
        for line in p.stdout.splitlines():
            if line.startswith('LOGDIFF'):
                viol('free-running-outcome-differs-from-sequential', line[:190])
    races = 0
    for f in glob.glob(logp + '.*'):
        txt = open(f, errors='replace').read()
        for rep in txt.split('=================='):
            if 'WARNING: ThreadSanitizer' in rep:
                races += 1
                head = [l for l in rep.splitlines() if l.strip()][:1]
                where = re.findall(r'#0 (\S+) (\S+)', rep)[:2]
                viol('tsan:' + (head[0].strip()[:60] if head else 'report') + ':' + (where[0][0] if where else '?'), ' '.join(rep.split())[:190], ' '.join('%s %s' % w for w in where))
    res['counters'] = {'evaluations': evals, 'distinct_nontrivial': 0, 'tsan_free_running_validations': evals, 'tsan_reports': races}
    res['samples'].append({'sub': 'tsan', 'cfg': '', 'text': 'TSAN_OPTIONS=... tsanrun ' + tier, 'msg': (m.group(0) if m else 'no summary')})
    res['phases'].append({'name': 'ThreadSanitizer free-running pass (%s build): harness bodies + 2/3/4/8/16-thread validation loops' % BL.VARIANTS[variant][2], 'shards': 1, 'done': 1, 'complete': bool(m), 'evaluations': evals, 'wall_s': round(time.time() - t0, 2)})
    return res


def run_opt7(bdir, tier, known_ids, deadline): return run(bdir, tier, known_ids, deadline, variant='tsan-opt7')
def run_idn(bdir, tier, known_ids, deadline): return run(bdir, tier, known_ids, deadline, variant='tsan-idn')
def run_idnkit(bdir, tier, known_ids, deadline): return run(bdir, tier, known_ids, deadline, variant='tsan-idnkit')
