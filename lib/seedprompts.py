#!/usr/bin/env python3
"""seedprompts.py <round> - writes /tmp/wt/Cxx.prompt<round>.txt, the brief handed to the independent seeding agent of each property.
The agent sees the property text, the list of earlier seeds for that property (all of which the checks report) and a description of what
the checks enumerate; it works in its own git worktree /tmp/wt/Cxx of /repo and never sees /verif.
Worktrees:  for i in 01..20: git -C /repo worktree add -q --detach /tmp/wt/C$i HEAD"""
import sys
ROUND = sys.argv[1] if len(sys.argv) > 1 else '6'
import json,glob
props={}
for l in open('/verif/properties.jsonl'):
    p=json.loads(l); props[p['id']]=p
seeds={}
for f in sorted(glob.glob('/verif/seeded/C*/meta.json')):
    d=json.load(open(f)); seeds.setdefault(d['property'],[]).append(d['change']+"  [trigger: "+d['what_it_needs_to_manifest']+"]")
T='''You are helping to test a verification harness by seeding ONE realistic defect into a C library. Work ONLY inside the git worktree __WT__ (a checkout of "libeav", a small C library that validates e-mail addresses per RFC 822/5321/5322/6531, with a CLI in bin/ and tests in tests/). Do NOT read or write anything under /verif or /repo - your work must be independent of them. There is no network. NEVER use `git stash` (it is shared between worktrees); to switch between original and changed code use `git diff -- . ':(exclude)_seed' > __WT__.my.diff; git checkout -- .` and later `git apply __WT__.my.diff`, rebuilding each time.

The property that the library is supposed to satisfy:

__PROP__

Your task: make one small, realistic source change to the library (under src/, partial/idn2/, include/, bin/, util/ or data/ as relevant to the property; never edit tests/ or the Makefiles' expected counts) that BREAKS this property, while
 (a) everything still compiles:  make clean >/dev/null; make
 (b) the repository's own test suite still passes unchanged:  make check   must exit 0 (run it, read the end of its output).
The change must look like a mistake a maintainer could plausibly make - a plain logic slip, not an artificial hash/cache/obfuscation. Do not make the change conditional on a magic input string. The violation must be INSIDE the property's input domain: addresses are NUL-terminated strings handed over with length == strlen (do not rely on a length argument shorter or longer than the string, nor on embedded NUL bytes); per-part validators are called with [start,end) ranges as the library itself calls them.

IMPORTANT for this round: the earlier attempts on this property were all found by the checker under test. They were:
__EARLIER__
That checker enumerates: all short strings over small alphabets and every byte value at structural positions (local parts to 6 tokens, quoted-string bodies to 6 tokens); counters/lengths around every documented limit, around powers of two up to 4 KiB and at the lengths where 8-, 16-, 31- and 32-bit counters wrap (ranges up to 4 GiB, for whole addresses and for the per-part validators, with structural features at the start and at the end); both halves of the address near their limits at once; label counts and label depth (reserved names, look-alikes and table rows behind all sequences of 0-4 labels and behind up to 126 labels); long non-ASCII (IDN) domains, soft-hyphen padding, alternative dot characters and fullwidth letters; every Unicode scalar value as a local-part character in 34 surroundings and as a domain label (alone, after a letter, as the whole domain); 40 local-part shapes x 36 domain shapes; IPv6 groups in 27 spellings at every index, octets in 25 spellings, literals behind three local-part shapes, on all three IDN back ends with poisoned heap memory; 24 filler patterns up to 64 KiB inside complete addresses under a deterministic cost monitor; every row of the TLD table (CSV and the compiled table) with prefixes and case variants through every validator, every byte substituted at every position, the generators re-run and compared, the CSV title line checked; return codes followed through eav_is_email under 14 masks (0, all, default, single bits) x tld on/off over all corpora with the expected class computed from the shipped data, all 2048 masks on fixed addresses on all three back ends; ordered pairs of inputs validated back to back, incl. every ordered pair of 150 feature addresses x every ordered pair of (mode, tld_check) configurations on one and on two objects, and one address per TLD class under 14 masks after every feature address; all API histories over a menu of ~20 addresses, 4 masks, 6 mode values with a digest of the library's static memory in the state, eav_errstr read after every call and across eav_free; two-/three-thread schedules at load/store granularity from a cold start plus a scan of the library's libc imports for functions with hidden static state; every IDN error code injected with and without an output buffer, tld_check on and off, message text compared with the IDN library's; the CLI on all short line sequences, line lengths around powers of two, multi-byte characters at every offset around multiples of 256..8192; all 8 option builds side by side on all corpora. Find a DIFFERENT realistic mistake that is still likely to be MISSED, within the property's input domain. Think about what is NOT in that list: e.g. a combination of three or four specific settings/inputs; behaviour that depends on a specific VALUE or a relation between two values (two labels being equal, a label equal to the local part, a digit sequence, a particular TLD row or class, a code-point RANGE with more than one character in a label); the third or fourth element of something; an interaction between two non-adjacent parts of the address; an error path taken only when two things are wrong at once; a sequence of THREE or more calls with a setting changed in between; an API entry point, struct field or callback that is rarely used; behaviour for a specific TLD row or a specific PAIR of rows; a slip in only one of several near-identical copies of a code block (per mode, per back end) that manifests only for an input class the copies treat alike; data files / generators rather than code (for the table property); output formatting / exit status of the CLI, unusual file shapes.

Notes on the environment: libidn2 is installed (link with -lidn2; the default build uses partial/idn2). libidn and idnkit are NOT installed (if you need to compile partial/idn or partial/idnkit, write minimal stub headers/implementations of their API in your _seed/ directory, forwarding to libidn2). Perl's Text::CSV is not installed. gcc, clang (with sanitizers), valgrind and pthreads are available. The build puts libeav.so / libeav.a in the worktree root.
__EXTRA__
Deliverables, all in __WT__/_seed/ :
 - patch.diff : output of `git diff -- . ':(exclude)_seed'` for your source change only (no build products).
 - demo.c or demo.sh : a small program/script that exits 0 on the ORIGINAL code and non-zero on the CHANGED code. Put the exact build+run command line (run from the worktree root after `make`) in a comment at its top, on ONE line starting with "RUN: ". It must be self-contained.
 - NOTES.md : what you changed and where; why it violates the property; what specific condition is needed for it to manifest; the tail of `make check` with the change applied (showing exit 0); the demo's result on the original code and on the changed code.
Verify all of it yourself. Leave the worktree with the change applied but NOT committed. Finish with a 5-line summary (file changed, one-line description, trigger condition, make check result, demo result before/after).
'''
extra={'C17':"Extra note: `make check` must pass in the default configuration; option builds are made with e.g. `make RFC6531_FOLLOW_RFC20=ON`.\n",
 'C18':"Extra note: the change should be in partial/idn/ or partial/idnkit/ (backends the default build does not compile); the demo must compile that backend against stub headers you write in _seed/ and compare with the partial/idn2 build or count resources.\n",
 'C19':"Extra note: a demo can inject IDN-library failures by linking with -Wl,--wrap=idn2_to_ascii_8z and defining __wrap_idn2_to_ascii_8z.\n",
 'C20':"Extra note: the property is about the command-line tool bin/eav (built by `make`, run as `LD_LIBRARY_PATH=. bin/eav FILE`); the change should be in bin/.\n"}
for pid,p in props.items():
    prop="%s — %s\n\nStatement: %s\n\nQuantified over: %s\n\nWhy the existing tests cannot settle it: %s\n\nCode anchors (files): %s\n" % (p['id'],p['title'],p['statement'],p['quantifier']['text'],p['why_tests_cant'],', '.join(p['anchors']['files']))
    t=T.replace('__WT__','/tmp/wt/'+pid).replace('__PROP__',prop).replace('__EARLIER__','\n'.join(' - '+c for c in seeds.get(pid,[]))).replace('__EXTRA__',extra.get(pid,''))
    open('/tmp/wt/%s.prompt%s.txt' % (pid, ROUND), 'w').write(t)
print('ok')
