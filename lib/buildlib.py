"""Out-of-tree builds of libeav from the current working tree of $REPO.
Nothing is ever written under $REPO; every build directory lives under
/verif/build/ and is removed by the caller when the check is done."""
import os, subprocess, glob, shutil, tempfile, sys
from concurrent.futures import ThreadPoolExecutor

V = os.path.dirname(os.path.dirname(os.path.abspath(__file__)))
GUARD = 'LIBEAV_VERIF'
BASE_DEFS = ['-D_DEFAULT_SOURCE', '-D_XOPEN_SOURCE=700', '-D_SVID_SOURCE', '-D' + GUARD]

def repo():
    return os.path.abspath(os.environ.get('REPO', '/repo'))

def sh(cmd, **kw):
    r = subprocess.run(cmd, stdout=subprocess.PIPE, stderr=subprocess.STDOUT, text=True, **kw)
    return r.returncode, r.stdout

VARIANTS = {
    # name: (cc, cflags, backend, extra defs)
    'plain':   ('gcc',   ['-O2'], 'idn2', []),
    'asan':    ('clang', ['-O1', '-g', '-fsanitize=address,undefined', '-fno-sanitize-recover=all', '-fno-omit-frame-pointer'], 'idn2', []),
    'cov':     ('clang', ['-O1', '-fsanitize-coverage=trace-pc-guard,trace-loads,trace-stores', '-fno-builtin'], 'idn2', []),
    'covbb':   ('clang', ['-O1', '-fsanitize-coverage=trace-pc-guard', '-fno-builtin'], 'idn2', []),
    'tsan':    ('clang', ['-O1', '-g', '-fsanitize=thread'], 'idn2', []),
    'tsan-idn':    ('clang', ['-O1', '-g', '-fsanitize=thread'], 'idn', []),
    'tsan-idnkit': ('clang', ['-O1', '-g', '-fsanitize=thread'], 'idnkit', []),
    'msan':    ('clang', ['-O1', '-g', '-fsanitize=memory', '-fno-omit-frame-pointer'], 'idn2', []),
    'extra':   ('gcc',   ['-O2'], 'idn2', ['-DEAV_EXTRA']),
    'idn':     ('gcc',   ['-O2'], 'idn', []),
    'idnkit':  ('gcc',   ['-O2'], 'idnkit', []),
    'idn-extra':    ('gcc', ['-O2'], 'idn', ['-DEAV_EXTRA']),
    'idnkit-extra': ('gcc', ['-O2'], 'idnkit', ['-DEAV_EXTRA']),
}
VARIANTS['debug'] = ('gcc', ['-O0', '-g'], 'idn2', ['-D_DEBUG'])          # the Makefile's `make debug` target: -g -D_DEBUG compiles trace statements into the validators
_OPT7 = ['-DRFC6531_FOLLOW_RFC5322', '-DRFC6531_FOLLOW_RFC20', '-DLABELS_ALLOW_UNDERSCORE']
VARIANTS['asan-opt7'] = (VARIANTS['asan'][0], VARIANTS['asan'][1], 'idn2', _OPT7)        # C06 on the code that only the build options compile
VARIANTS['cov-opt7'] = (VARIANTS['cov'][0], VARIANTS['cov'][1], 'idn2', _OPT7)          # C14 on the code that only the build options compile
VARIANTS['tsan-opt7'] = (VARIANTS['tsan'][0], VARIANTS['tsan'][1], 'idn2', _OPT7)
for i in range(8):
    d = []
    if i & 1: d.append('-DRFC6531_FOLLOW_RFC5322')
    if i & 2: d.append('-DRFC6531_FOLLOW_RFC20')
    if i & 4: d.append('-DLABELS_ALLOW_UNDERSCORE')
    VARIANTS['opt%d' % i] = ('gcc', ['-O2'], 'idn2', d)

def backend_flags(backend):
    if backend == 'idn2':
        return ['-DHAVE_LIBIDN2'], []
    if backend == 'idn':
        return ['-DHAVE_LIBIDN', '-I' + os.path.join(V, 'stubs', 'idn')], []
    if backend == 'idnkit':
        return ['-DHAVE_IDNKIT', '-I' + os.path.join(V, 'stubs', 'idnkit')], []
    raise ValueError(backend)

def lib_sources(backend):
    R = repo()
    return sorted(glob.glob(os.path.join(R, 'src', '*.c'))) + sorted(glob.glob(os.path.join(R, 'partial', backend, '*.c')))

def build_objects(bdir, variant, extra_defs=(), prefix=None):
    """Compile the library sources of the working tree; returns list of object files."""
    cc, cflags, backend, vdefs = VARIANTS[variant]
    R = repo()
    bdefs, _ = backend_flags(backend)
    odir = os.path.join(bdir, 'lib-' + (prefix or variant))
    os.makedirs(odir, exist_ok=True)
    jobs = []
    for src in lib_sources(backend):
        tag = os.path.basename(os.path.dirname(src))
        obj = os.path.join(odir, '%s_%s.o' % (tag, os.path.basename(src)[:-2]))
        cmd = [cc] + cflags + ['-std=gnu99', '-fPIC', '-c', '-I' + os.path.join(R, 'include'), '-I' + R] + BASE_DEFS + bdefs + vdefs + list(extra_defs) + [src, '-o', obj]
        jobs.append((cmd, obj))
    def one(j):
        rc, out = sh(j[0])
        if rc != 0:
            raise RuntimeError('compile failed: %s\n%s' % (' '.join(j[0]), out))
        return j[1]
    with ThreadPoolExecutor(16) as ex:
        return list(ex.map(one, jobs))

def build_shared(bdir, variant, extra_defs=(), name=None):
    objs = build_objects(bdir, variant, extra_defs, prefix=name or variant)
    cc = VARIANTS[variant][0]
    so = os.path.join(bdir, 'libeav_%s.so' % (name or variant))
    libs = ['-lidn2'] if VARIANTS[variant][2] == 'idn2' else []
    rc, out = sh([cc, '-shared', '-Wl,-Bsymbolic', '-Wl,-z,now', '-o', so] + VARIANTS[variant][1] + objs + libs)
    if rc != 0:
        raise RuntimeError('link failed: ' + out)
    return so

def build_driver(bdir, src, variant='plain', defs=(), objs=None, libs=('-lidn2',), out=None, extra_src=(), ldflags=()):
    cc, cflags, backend, vdefs = VARIANTS[variant]
    R = repo()
    bdefs, _ = backend_flags(backend)
    if objs is None:
        objs = build_objects(bdir, variant)
    exe = out or os.path.join(bdir, os.path.basename(src)[:-2] + '-' + variant)
    cmd = [cc] + cflags + (['-Wno-format-truncation'] if cc == 'gcc' else []) + ['-std=gnu99', '-Wall', '-Wextra', '-Wno-unused-function', '-Wno-unused-parameter',
           '-I' + os.path.join(R, 'include'), '-I' + R, '-I' + V] + BASE_DEFS + bdefs + vdefs + list(defs) + ['-o', exe, os.path.join(V, src)] + [os.path.join(V, s) for s in extra_src] + list(objs) + list(ldflags) + list(libs) + ['-lpthread', '-ldl']
    rc, out_ = sh(cmd)
    if rc != 0:
        raise RuntimeError('driver build failed: %s\n%s' % (' '.join(cmd), out_))
    return exe

def baseline(repo_path):
    """The repository's own suite on a scratch copy with the guard off."""
    tmp = tempfile.mkdtemp(prefix='libeav-baseline-', dir=os.environ.get('TMPDIR', '/tmp'))
    try:
        dst = os.path.join(tmp, 'r')
        rc, out = sh(['rsync', '-a', '--exclude', '.git', repo_path.rstrip('/') + '/', dst + '/'])
        if rc: print(out); return 2
        rc, out = sh(['make', '-C', dst, 'clean'])
        rc, out = sh(['make', '-C', dst])
        if rc: print(out[-3000:]); print('BASELINE: build failed'); return 1
        rc, out = sh(['make', '-C', dst, 'check'])
        sys.stdout.write(out)
        print('BASELINE: make check exit status %d' % rc)
        return 0 if rc == 0 else 1
    finally:
        shutil.rmtree(tmp, ignore_errors=True)


def build_locale(bdir):
    """A single-byte locale (ISO-8859-1 layout, LC_CTYPE only) compiled with localedef(1) into bdir/locales/eav_latin1: the sandbox ships C and C.utf8 only,
    and a library that classifies bytes with the locale-dependent <ctype.h> functions behaves differently once the application has called setlocale().
    Returns the LOCPATH directory, or None if localedef cannot build it (the locale steps then run with C.UTF-8 only)."""
    ldir = os.path.join(bdir, 'locales')
    if os.path.exists(os.path.join(ldir, 'eav_latin1', 'LC_CTYPE')): return ldir
    os.makedirs(ldir, exist_ok=True)
    cm = os.path.join(bdir, 'LATIN1.charmap'); src = os.path.join(bdir, 'eav_latin1.src')
    with open(cm, 'w') as f:
        f.write('<code_set_name> EAV-LATIN1\n<comment_char> %\n<escape_char> /\n<mb_cur_min> 1\n<mb_cur_max> 1\nCHARMAP\n')
        for i in range(256): f.write('<U%04X> /x%02x\n' % (i, i))
        f.write('END CHARMAP\n')
    pairs = lambda a, b: ';'.join('(<U%04X>,<U%04X>)' % (a + i, b + i) for i in range(26))
    with open(src, 'w') as f:
        f.write("""comment_char %%
escape_char /
LC_CTYPE
upper <U0041>..<U005A>;<U00C0>..<U00D6>;<U00D8>..<U00DE>
lower <U0061>..<U007A>;<U00AA>;<U00B5>;<U00BA>;<U00DF>..<U00F6>;<U00F8>..<U00FF>
alpha <U0041>..<U005A>;<U0061>..<U007A>;<U00AA>;<U00B5>;<U00BA>;<U00C0>..<U00D6>;<U00D8>..<U00F6>;<U00F8>..<U00FF>
digit <U0030>..<U0039>
space <U0009>..<U000D>;<U0020>;<U0085>;<U00A0>
cntrl <U0000>..<U001F>;<U007F>..<U009F>
punct <U0021>..<U002F>;<U003A>..<U0040>;<U005B>..<U0060>;<U007B>..<U007E>;<U00A1>..<U00A9>;<U00AB>..<U00B4>;<U00B6>..<U00B9>;<U00BB>..<U00BF>;<U00D7>;<U00F7>
graph <U0021>..<U007E>;<U00A1>..<U00FF>
print <U0020>..<U007E>;<U00A0>..<U00FF>
xdigit <U0030>..<U0039>;<U0041>..<U0046>;<U0061>..<U0066>
blank <U0009>;<U0020>;<U00A0>
toupper %s
tolower %s
END LC_CTYPE
""" % (pairs(97, 65), pairs(65, 97)))
    sh(['localedef', '-c', '-f', cm, '-i', src, os.path.join(ldir, 'eav_latin1')])
    return ldir if os.path.exists(os.path.join(ldir, 'eav_latin1', 'LC_CTYPE')) else None
