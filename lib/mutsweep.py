#!/usr/bin/env python3
"""Mechanical first-order mutation sweep (a measurement of the checks, not a check).

For every mutation site in the library sources (relational-operator flips,
&& <-> ||, integer literal +-1, '+' <-> '-', dropped '!', dropped case label,
dropped simple statement, shifted character literal) a scratch copy of the
committed tree of $SRC (default: `git archive HEAD` of /repo) is mutated and

  stage 1  the repository's own suite (`make && make check`) is run on it: a
           mutant the suite already rejects says nothing about our checks;
  stage 2  for a suite survivor the quick checks mapped to the mutated file are
           run with REPO=<scratch>, cheapest first, stopping at the first
           VIOLATION.

Results go to findings/mutsweep.jsonl (one JSON object per mutant; the run is
resumable: known mutant ids are skipped) and `--report` writes
findings/mutsweep.txt: killed-by table and the list of survivors with their
diff, which is then triaged by hand in DESIGN.md (equivalent / outside every
property / gap that was closed).

Scratch copies live under /tmp/ms-<pid>/ and are removed per mutant.
"""
import sys, os, re, json, signal, subprocess, shutil, tempfile, argparse, threading, time
from concurrent.futures import ThreadPoolExecutor

HERE = os.path.dirname(os.path.abspath(__file__))
ROOT = os.path.dirname(HERE)

FILEMAP = [
    ('src/is_822_local.c',            ['C02', 'C12', 'C15']),
    ('src/is_5321_local.c',           ['C02', 'C12', 'C15']),
    ('src/is_5322_local.c',           ['C02', 'C12', 'C15']),
    ('src/is_6531_local.c',           ['C03', 'C12', 'C15', 'C17']),
    ('src/utf8_decode.c',             ['C03', 'C12']),
    ('src/is_ascii_domain.c',         ['C04', 'C15', 'C17']),
    ('src/is_ipv4_ipv6.c',            ['C05', 'C16']),
    ('src/is_special_domain.c',       ['C09', 'C16', 'C07']),
    ('src/is_tld.c',                  ['C07', 'C08']),
    ('src/is_822_email.c',            ['C01', 'C16', 'C15', 'C12']),
    ('src/is_5321_email.c',           ['C01', 'C16', 'C15', 'C12']),
    ('src/is_5322_email.c',           ['C01', 'C16', 'C15', 'C12']),
    ('include/eav/private_email.h',   ['C01', 'C05', 'C16', 'C15', 'C09', 'C07']),
    ('partial/idn2/is_6531_email.c',  ['C01', 'C16', 'C10', 'C15', 'C19']),
    ('partial/idn2/is_utf8_domain.c', ['C10', 'C04', 'C16', 'C15', 'C19', 'C09', 'C07']),
    ('partial/idn2/eav.c',            ['C13', 'C08', 'C15', 'C18', 'C19']),
    ('src/eav.c',                     ['C15', 'C13', 'C16', 'C18']),
    ('partial/idn/eav.c',             ['C18', 'C13']),
    ('partial/idn/is_6531_email.c',   ['C18', 'C10', 'C16']),
    ('partial/idn/is_utf8_domain.c',  ['C18', 'C10', 'C19']),
    ('partial/idnkit/eav.c',          ['C18', 'C13']),
    ('partial/idnkit/is_6531_email.c', ['C18', 'C10', 'C16']),
    ('partial/idnkit/is_utf8_domain.c', ['C18', 'C10', 'C19']),
    ('bin/main.c',                    ['C20']),
    ('bin/utf8_decode.c',             ['C20']),
]

# ---------------------------------------------------------------- lexer

TOK = re.compile(r'''
    (?P<num>0[xX][0-9a-fA-F]+|\d+)(?![\w.])
  | (?P<id>[A-Za-z_]\w*)
  | (?P<op><<=|>>=|<<|>>|<=|>=|==|!=|&&|\|\||\+\+|--|->|\+=|-=|[-+<>!])
''', re.X)


def code_mask(text):
    """Returns a bytearray: 1 where the character is mutable code (not in a
    comment, string literal, or a preprocessor line other than a #define body),
    2 where it is inside a character literal."""
    n = len(text)
    m = bytearray(n)
    i = 0
    bol = True
    in_pp = False          # inside a preprocessor logical line
    pp_code = False        # that line is a #define body
    while i < n:
        c = text[i]
        if c == '\n':
            if in_pp and i > 0 and text[i - 1] == '\\':
                pass
            else:
                in_pp = False
                pp_code = False
            bol = True
            i += 1
            continue
        if bol and c in ' \t':
            i += 1
            continue
        if bol and c == '#' and not in_pp:
            in_pp = True
            mm = re.match(r'#\s*define\s+\w+(\([^)]*\))?', text[i:])
            if mm:
                pp_code = True
                i += mm.end()
            bol = False
            continue
        bol = False
        if text.startswith('/*', i):
            j = text.find('*/', i + 2)
            j = n if j < 0 else j + 2
            # a comment may span lines inside a macro; keep pp state
            i = j
            continue
        if text.startswith('//', i):
            j = text.find('\n', i)
            i = n if j < 0 else j
            continue
        if c == '"':
            j = i + 1
            while j < n and text[j] != '"':
                j += 2 if text[j] == '\\' else 1
            i = j + 1
            continue
        if c == "'":
            j = i + 1
            while j < n and text[j] != "'":
                j += 2 if text[j] == '\\' else 1
            if not in_pp or pp_code:
                for k in range(i, min(j + 1, n)):
                    m[k] = 2
            i = j + 1
            continue
        if not in_pp or pp_code:
            m[i] = 1
        i += 1
    return m


ROR = {'<': ['<='], '<=': ['<'], '>': ['>='], '>=': ['>'], '==': ['!='], '!=': ['==']}
TYPEWORDS = {'int', 'char', 'const', 'static', 'extern', 'size_t', 'unsigned', 'return', 'goto',
             'case', 'default', 'typedef', 'struct', 'bool', 'eav_t', 'utf8_decode_t', 'idn_result_t',
             'FILE', 'ssize_t', 'long', 'short', 'void', 'register', 'tld_t', 'eav_result_t', 'if',
             'else', 'while', 'for', 'do', 'switch', 'idn_action_t', 'uint32_t', 'enum'}


def mutants_of(text):
    """Yields (kind, start, end, replacement, line)."""
    m = code_mask(text)
    out = []
    toks = []
    for t in TOK.finditer(text):
        s = t.start()
        if m[s] != 1:
            continue
        toks.append(t)
    prev = None
    for idx, t in enumerate(toks):
        s, e = t.span()
        line = text.count('\n', 0, s) + 1
        if t.group('op'):
            op = t.group('op')
            if op in ROR:
                # skip '<' '>' of template-like includes (already masked) and '->' (tokenised separately)
                for r in ROR[op]:
                    out.append(('ror', s, e, r, line))
            elif op == '&&':
                out.append(('lcr', s, e, '||', line))
            elif op == '||':
                out.append(('lcr', s, e, '&&', line))
            elif op == '!':
                out.append(('neg', s, e, '', line))
            elif op in '+-' and len(op) == 1:
                binary = prev is not None and (prev.group('id') or prev.group('num') or text[prev.end() - 1] in ')]')
                # previous token must be adjacent modulo spaces to be a binary operator
                between = text[prev.end():s] if prev is not None else 'x'
                if prev is not None and between.strip() in ('', ')', ']', '))', ')]') and (binary or between.strip()):
                    out.append(('aor', s, e, '-' if op == '+' else '+', line))
        elif t.group('num'):
            v = int(t.group('num'), 0)
            hexa = t.group('num').lower().startswith('0x')
            fmt = (lambda x: hex(x)) if hexa else (lambda x: str(x))
            out.append(('const', s, e, fmt(v + 1), line))
            if v > 0:
                out.append(('const', s, e, fmt(v - 1), line))
        prev = t
    # character literals outside case labels: shift by one
    for c in re.finditer(r"'(\\.|[^\\'])'", text):
        s, e = c.span()
        if m[s] != 2:
            continue
        line = text.count('\n', 0, s) + 1
        ls = text.rfind('\n', 0, s) + 1
        before = text[ls:s]
        if re.search(r'\bcase\s*$', before):
            continue
        body = c.group(1)
        if body.startswith('\\'):
            continue
        nc = chr(ord(body) + 1)
        if nc in "'\\":
            nc = chr(ord(nc) + 1)
        out.append(('chr', s, e, "'%s'" % nc, line))
    # case label removal
    for c in re.finditer(r"\bcase\s+('(\\.|[^\\'])'|\w+)\s*:", text):
        s, e = c.span()
        if m[s] != 1:
            continue
        out.append(('case', s, e, '', text.count('\n', 0, s) + 1))
    # simple statement removal (whole-line statements)
    pos = 0
    for ln, linetext in enumerate(text.split('\n'), 1):
        s = pos
        pos += len(linetext) + 1
        body = linetext.rstrip()
        cont = body.endswith('\\')
        if cont:
            body = body[:-1].rstrip()
        st = body.strip()
        if not st or m[s + len(linetext) - len(linetext.lstrip())] != 1:
            continue
        if not st.endswith(';') or st.count(';') != 1 or '{' in st or '}' in st:
            continue
        first = re.match(r'[A-Za-z_]\w*', st)
        if st in ('break;', 'continue;'):
            pass
        elif not first or first.group(0) in TYPEWORDS:
            continue
        elif not re.match(r'^[A-Za-z_*(][^;]*;$', st):
            continue
        a = s + len(linetext) - len(linetext.lstrip())
        b = a + len(st)
        out.append(('sdl', a, b, ';', ln))
    return out


# ---------------------------------------------------------------- running

def sh(cmd, cwd=None, env=None, timeout=None):
    """Runs cmd in its own process group; on timeout the whole group is killed (a mutant that loops for ever sits in a
    grandchild of the shell: make -> make -C tests -> t-xyz.bin)."""
    p = subprocess.Popen(cmd, shell=True, executable='/bin/bash', cwd=cwd, env=env, stdout=subprocess.PIPE, stderr=subprocess.STDOUT,
                         text=True, errors='replace', start_new_session=True)
    try:
        out, _ = p.communicate(timeout=timeout)
        return p.returncode, out
    except subprocess.TimeoutExpired:
        try:
            os.killpg(p.pid, 9)
        except ProcessLookupError:
            pass
        out, _ = p.communicate()
        return 124, out or ''


def materialise(src):
    d = tempfile.mkdtemp(prefix='src-', dir=WORK)
    if src:
        subprocess.check_call('cp -a %s/. %s/' % (src, d), shell=True)
    else:
        subprocess.check_call('git -C /repo archive HEAD | tar -x -C %s' % d, shell=True)
    return d


def mutant_id(f, kind, line, s, rep):
    return '%s:%d:%s@%d:%s' % (f, line, kind, s, rep)


def stage1(base, f, text, mu):
    kind, s, e, rep, line = mu
    d = tempfile.mkdtemp(prefix='m-', dir=WORK)
    subprocess.check_call('cp -a %s/. %s/' % (base, d), shell=True)
    with open(os.path.join(d, f), 'w') as fh:
        fh.write(text[:s] + rep + text[e:])
    env = dict(os.environ)
    rc, out = sh('make -s >/dev/null 2>&1 || exit 99; set -o pipefail; make check 2>&1 | tail -40', cwd=d, env=env, timeout=120)
    if rc == 99:
        verdict = 'nocompile'
    elif rc == 124:
        verdict = 'suite-timeout'
    elif rc != 0:
        verdict = 'suite-kill'
    else:
        verdict = 'suite-pass'
    if verdict == 'suite-pass':
        subprocess.call('make -s clean >/dev/null 2>&1', shell=True, cwd=d)
        return verdict, d
    shutil.rmtree(d, ignore_errors=True)
    return verdict, None


def stage2(d, ids, tier):
    log = []
    killed = None
    for pid in ids:
        env = dict(os.environ)
        env['REPO'] = d
        t0 = time.time()
        rc, out = sh('%s/run %s %s 2>&1 | grep -E "^VIOLATION|HARNESS|^KNOWN" | cut -c1-400 | head -3; exit ${PIPESTATUS[0]}'
                     % (ROOT, pid, tier), env=env, timeout=1500, cwd=ROOT)
        # sh -c with bash pipestatus
        log.append({'id': pid, 'rc': rc, 's': round(time.time() - t0, 1), 'out': out.strip()[:600]})
        if rc == 1 and 'VIOLATION' in out:
            killed = pid
            break
    return killed, log


def main():
    global WORK
    ap = argparse.ArgumentParser()
    ap.add_argument('--src', default=None, help='source tree (default: git archive HEAD of /repo)')
    ap.add_argument('--out', default=os.path.join(ROOT, 'findings', 'mutsweep.jsonl'))
    ap.add_argument('--files', default=None, help='comma-separated subset of files')
    ap.add_argument('--list', action='store_true')
    ap.add_argument('--report', action='store_true')
    ap.add_argument('--j1', type=int, default=6)
    ap.add_argument('--j2', type=int, default=2)
    ap.add_argument('--tier', default='quick')
    ap.add_argument('--recheck-survivors', action='store_true',
                    help='run stage 2 again for the recorded survivors (after the checks were extended)')
    a = ap.parse_args()
    if a.report:
        return report(a.out)
    WORK = tempfile.mkdtemp(prefix='ms-%d-' % os.getpid(), dir='/tmp')
    try:
        base = materialise(a.src)
        done = {}
        if os.path.exists(a.out):
            for l in open(a.out):
                r = json.loads(l)
                done[r['mid']] = r
        files = [x for x in FILEMAP if not a.files or x[0] in a.files.split(',')]
        jobs = []
        for f, ids in files:
            text = open(os.path.join(base, f)).read()
            for mu in mutants_of(text):
                mid = mutant_id(f, mu[0], mu[4], mu[1], mu[3])
                if a.recheck_survivors:
                    if mid in done and done[mid]['verdict'] == 'survived':
                        jobs.append((f, ids, text, mu, mid))
                elif mid not in done:
                    jobs.append((f, ids, text, mu, mid))
        if a.list:
            for j in jobs:
                print(j[4])
            print(len(jobs), 'mutants')
            return
        print('mutsweep: %d mutants to run' % len(jobs), flush=True)
        lock = threading.Lock()
        ex2 = ThreadPoolExecutor(a.j2)
        futs = []
        outfh = open(a.out + ('.recheck' if a.recheck_survivors else ''), 'a')

        def record(r):
            with lock:
                outfh.write(json.dumps(r) + '\n')
                outfh.flush()
                print(r['verdict'], r.get('killed_by') or '', r['mid'], flush=True)

        def second(f, ids, mu, mid, d):
            try:
                killed, log = stage2(d, ids, a.tier)
                r = {'mid': mid, 'file': f, 'line': mu[4], 'kind': mu[0], 'rep': mu[3],
                     'verdict': 'killed' if killed else 'survived', 'killed_by': killed, 'log': log}
                record(r)
            finally:
                shutil.rmtree(d, ignore_errors=True)

        def first(job):
            f, ids, text, mu, mid = job
            verdict, d = stage1(base, f, text, mu)
            if d is None:
                record({'mid': mid, 'file': f, 'line': mu[4], 'kind': mu[0], 'rep': mu[3], 'verdict': verdict})
            else:
                futs.append(ex2.submit(second, f, ids, mu, mid, d))

        with ThreadPoolExecutor(a.j1) as ex1:
            list(ex1.map(first, jobs))
        for fu in futs:
            fu.result()
        ex2.shutdown()
    finally:
        shutil.rmtree(WORK, ignore_errors=True)


def report(path):
    rows = {}
    for p in (path, path + '.recheck'):
        if os.path.exists(p):
            for l in open(p):
                r = json.loads(l)
                rows[r['mid']] = r
    rows = list(rows.values())
    from collections import Counter
    c = Counter(r['verdict'] for r in rows)
    kb = Counter(r['killed_by'] for r in rows if r['verdict'] == 'killed')
    out = []
    out.append('mutsweep: %d mutants' % len(rows))
    for k, v in sorted(c.items()):
        out.append('  %-14s %d' % (k, v))
    live = c['killed'] + c['survived']
    if live:
        out.append('of the %d mutants the repository suite accepts, the quick checks report %d (%.1f%%)'
                   % (live, c['killed'], 100.0 * c['killed'] / live))
    out.append('first reporting check: ' + ', '.join('%s=%d' % kv for kv in sorted(kb.items())))
    byfile = {}
    for r in rows:
        byfile.setdefault(r['file'], Counter())[r['verdict']] += 1
    out.append('')
    out.append('%-34s %9s %9s %7s %8s' % ('file', 'nocompile', 'suite', 'killed', 'survived'))
    for f, cc in sorted(byfile.items()):
        out.append('%-34s %9d %9d %7d %8d' % (f, cc['nocompile'], cc['suite-kill'] + cc['suite-timeout'], cc['killed'], cc['survived']))
    out.append('')
    out.append('survivors:')
    for r in sorted(rows, key=lambda r: (r['file'], r['line'])):
        if r['verdict'] == 'survived':
            out.append('  %s:%d %s -> %r   [%s]' % (r['file'], r['line'], r['kind'], r['rep'],
                       ' '.join('%s=%s' % (x['id'], x['rc']) for x in r['log'])))
    txt = '\n'.join(out) + '\n'
    open(os.path.join(os.path.dirname(path), 'mutsweep.txt'), 'w').write(txt)
    sys.stdout.write(txt)


if __name__ == '__main__':
    main()
