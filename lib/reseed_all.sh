#!/bin/bash
# re-run every seeded change against the quick check of its property; writes seeded/<name>/recheck.txt
cd /verif; fail=0
for d in seeded/C*/; do n=$(basename $d); p=$(python3 -c "import json; print(json.load(open('$d/meta.json'))['property'])")
  git -C /repo apply /verif/$d/patch.diff || { echo "$n: apply failed"; fail=1; continue; }
  o=$(/verif/run $p quick 2>&1); rc=$?
  git -C /repo checkout -- .
  line=$(echo "$o" | grep -E "^VIOLATION" | head -1 | cut -c1-220)
  echo "$n $p exit=$rc $line" | tee $d/recheck.txt | cut -c1-200
  [ $rc -ne 1 ] && fail=1
done
git -C /repo status --short | head -3
exit $fail
