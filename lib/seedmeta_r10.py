#!/usr/bin/env python3
"""Round 10 of the seeded changes (see seedmeta_r5.py)."""
import json
M = {
'C01-j': ("basic_email_check: the 64-octet test 'unfolds' CRLF-SP/HT first (each fold subtracts 2)", "quoted local part longer than 64 octets containing folds: accepted in modes 822/5322",
          "MISSED at first (the length ladder had no folded shapes). New L3folded phase: quoted local parts of 58..75 octets with 1-3 CRLF-SP / CRLF-HT folds at every fifth position."),
'C02-j': ("basic_email_check: for an address ending in ']' the separator is found with strstr(e, \"@[\")", "quoted '@[' in the local part in front of an address literal: valid address refused",
          "MISSED at first (the local-part strings went through eav_is_email with a host-name domain only). check_local has a fourth context: the same local part in front of @[192.0.2.1]."),
'C03-j': ("is_6531_local: control-character test with the locale-dependent iswcntrl() on every decoded code point", "after setlocale(LC_ALL, \"C.UTF-8\"): U+0080..U+009F, U+2028, U+2029 refused as control characters",
          "MISSED at first (every driver ran in the C locale). The process locale is now an environment input: C02, C03 and C04 repeat their automaton products / generators after setlocale() to C.UTF-8 and to a single-byte ISO-8859-1 locale compiled on the spot with localedef(1) (MC_LOCALE / LOCPATH); C03's UTF-8 step keeps the all-scalars sweep."),
'C04-j': ("ISCNTRL/ISDIGIT/ISALNUM macros lose their ISASCII() guard", "after setlocale() to a single-byte locale: host-name bytes >= 0x80 that the locale calls letters are accepted", "MISSED at first; see C03-j (the eav_latin1 locale step of C04)."),
'C05-j': ("check_ip: the 'untagged literal contains a colon' test searches the whole address again", "quoted local part with ':' in front of an IPv4 literal", "reported at once (three local-part shapes in front of every literal)."),
'C06-j': ("is_ipv4: byte_val > 255 tested only at the dot / end, the int accumulator overflows", "an octet of 10+ digits beyond INT_MAX: signed overflow, wrapped values accepted", "reported at once (UBSan on the long-digit fillers and maximal literals)."),
'C07-j': ("is_special_domain: length of the label after 'example.' found with ISALNUM()", "example.com-x: hyphenated last label read as 'com'",
          "MISSED at first (extensions of reserved names were generated for the five single-label names only). reserved_extensions now also extends example.com/net/org, in C07 and C09."),
'C08-j': ("is_special_domain rewritten as a suffix-table match; label boundary test !ISALNUM(cp[-1])", "reserved word directly behind a hyphen: my-example.com, unit-test", "reported at once (veto class oracle on the domain corpus: x@m.aa-test)."),
'C09-j': ("is_special_domain: strcasestr loop breaks on a hit inside a longer label", "a label '<chars>example' further left hides a real example.com", "reported at once (depth corpus / prefixes of every length: exampleexample.n.example.com)."),
'C10-j': ("is_utf8_domain: separator pre-mapping with a wrong lead byte (EE BD A1 = U+EF61 treated as a dot)", "U+EF61 between label characters: a<U+EF61>com accepted",
          "MISSED at first (every scalar was tried as a label, after a letter, as whole domain - never BETWEEN label characters without another dot). Two more shapes in the scalar sweep: a<cp>com and a<cp>b.com."),
'C11-j': ("CSV 'clean-up': curly quotes replaced by ASCII quotes without doubling them - record 1450 is malformed CSV", "Text::CSV (strict) stops at the record and the generators silently produce 1448 rows",
          "First seen as a HARNESS ERROR (the harness's own reader choked on the record and exited 2): the reader is now lenient, remembers bare quotes inside quoted fields, and C11 reports 'csv:malformed-record'."),
'C12-j': ("is_ascii_domain: 0x<hex> labels count as numeric, prefix test for lower-case 'x' only", "0X7F.0.0.1: host name in the ASCII modes, numeric in mode 6531 (the converter lower-cases)",
          "MISSED at first (no alphabet contains 'x'). New corpus 'shortlab': every label of 1-2 characters and every 3-character label starting with a digit over [a-z0-9-], lower and upper case, in four positions."),
'C13-j': ("is_utf8_domain: the TR46 flag lives in a static and flips to IDN2_TRANSITIONAL for the rest of the process after IDN2_INVALID_NONTRANSITIONAL", "a malformed xn-- label first; later names that only transitional processing accepts (i❤.ws) become valid",
          "MISSED at first for a reason inside the harness: the conversion shim dropped the library's flags argument and always converted non-transitionally. It passes the flags through now; one natural input per libidn2 error code and names on which the two processings differ joined the feature pool."),
'C14-j': ("is_special_domain: last label of a ROOTED name copied into a function-scope static buffer", "two threads validating rooted names with different last labels",
          "MISSED at first (no harness used rooted names). Harness H16; reported by the controlled scheduler and by TSan."),
'C15-j': ("is_ipv6: 'field <= 2' instead of '< 2' before an embedded dotted quad", "::a.b.c.d and 1::a.b.c.d refused with 'ip-addr is incorrect'", "reported at once (IPv6 shape grid, C15 predicate for code 24)."),
'C16-j': ("check_ip: tag test folds case with c | 0x20 on all five tag bytes", "[IPv\\x16:...]: invalid literal accepted with is_ipv6 set",
          "MISSED by C16 at first (C01/C05 substitute bytes, the sinks did not). New corpus 'subst': every byte value at every position of 14 complete addresses, read by all sinks."),
'C17-j': ("RFC6531_FOLLOW_RFC20 test moved into a second pass whose quote tracking misreads \\\\\" (escaped backslash before the closing quote)", "RFC20 build: \"\\\\\".# accepted",
          "MISSED at first ('#' was in no deep alphabet). The deep six-class strings get '#' as a seventh class when the RFC 20 option is in the reference (9 / 11 tokens)."),
'C18-j': ("partial/idnkit/eav.c: eav_free returns early when no resolver context exists", "idnkit build, last setup selected an ASCII mode: the last result record leaks", "reported at once (allocator ledger after eav_free in the lock-step search)."),
'C19-j': ("eav_is_email (idn2): IDN message looked up only when eav->rfc == 6531 (the requested, not the confirmed mode)", "rfc changed without a successful eav_setup, then an IDN failure: eav_errstr NULL", "reported at once (history search with unconfirmed / refused mode changes and faults)."),
'C20-j': ("sanitize_utf8: echo buffer grows by doubling, the terminating NUL has no reserve", "a line with control characters whose escaped echo is exactly 256*2^k bytes: one-byte heap overflow",
          "MISSED at first (the power-of-two line lengths were clean lines). New family: 1-3 control characters in lines of every length within 12 of 128..4096."),
}
if __name__ == '__main__':
    for k, (chg, needs, hist) in M.items():
        p = '/verif/seeded/%s/meta.json' % k
        d = json.load(open(p))
        d['change'] = chg; d['what_it_needs_to_manifest'] = needs; d['history'] = hist; d['round'] = 10
        json.dump(d, open(p, 'w'), indent=1)
    print('ok', len(M))
