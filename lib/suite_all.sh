#!/bin/sh
# run the repository's own suite for all 8 option combinations on a scratch copy (guard off)
REPO=${1:-/repo}
T=$(mktemp -d /tmp/libeav-suite-XXXXXX)
rsync -a --exclude .git "$REPO"/ "$T/r/"
fail=0
for a in OFF ON; do for b in OFF ON; do for c in OFF ON; do
  make -C "$T/r" clean >/dev/null 2>&1
  if make -C "$T/r" RFC6531_FOLLOW_RFC5322=$a RFC6531_FOLLOW_RFC20=$b LABELS_ALLOW_UNDERSCORE=$c >/dev/null 2>&1 && \
     make -C "$T/r" RFC6531_FOLLOW_RFC5322=$a RFC6531_FOLLOW_RFC20=$b LABELS_ALLOW_UNDERSCORE=$c check >"$T/log" 2>&1; then
     echo "suite RFC5322=$a RFC20=$b UNDERSCORE=$c: PASS"
  else echo "suite RFC5322=$a RFC20=$b UNDERSCORE=$c: FAIL"; tail -15 "$T/log"; fail=1; fi
done; done; done
rm -rf "$T"
exit $fail
