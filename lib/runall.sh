#!/bin/bash
# run every check of MANIFEST.json at the given tier, validate every evidence file
tier=${1:-quick}; fail=0
for id in $(python3 -c "import json; print(' '.join(c['property_id'] for c in json.load(open('/verif/MANIFEST.json'))['checks']))"); do
  rm -f /verif/evidence/$id.json
  s=$(date +%s.%N); out=$(/verif/run $id $tier 2>&1); rc=$?; e=$(date +%s.%N)
  printf "%s rc=%d %.1fs %s\n" $id $rc $(echo "$e - $s" | bc) "$(echo "$out" | tail -1 | cut -c1-150)"
  [ $rc -ne 0 ] && { fail=1; echo "$out" | head -5 | cut -c1-300; }
done
python3-vt - <<'PY'
import json, jsonschema, glob
sch=json.load(open('/root/.vp/EVIDENCE.schema.json'))
for f in sorted(glob.glob('/verif/evidence/*.json')):
    try: jsonschema.validate(json.load(open(f)), sch)
    except Exception as ex: print('INVALID', f, str(ex)[:300])
print('evidence files validated:', len(glob.glob('/verif/evidence/*.json')))
PY
exit $fail
