#!/usr/bin/env python3
"""Round 6 of the seeded changes (see seedmeta_r5.py)."""
import json
M = {
'C01-f': ("basic_email_check: '@' search rewritten with memchr keeping first and last '@'; the 64-octet test uses the FIRST '@'", "more than one '@', the first within 65 octets, local part (before the last '@') longer than 64: \"a@bbb...b\"@example.org accepted", "reported at once (L3: 0-4 '@' placements and the quoted '@' shapes of the length ladder)."),
'C02-f': ("is_822_local: look-ahead guards computed from 'const int left = end - cp'", "direct is_822_local on a range of more than 2 GiB with the structural feature early, so that 2^31 or more bytes follow it",
          "MISSED at first (no length beyond 64 KiB). New 'huge' phase in C02/C03: 20 (25) shapes with a feature at the start or at the end x lengths k*2^8+d, k*2^16+d, 2^31+5 (thorough: 2^24, 2^31, 2^32 + d); expected verdict = the reference's verdict for the same shape with 70 filler characters; views into one copy-on-write buffer, one shard per (length, shape, mode). The same phase exposed a genuine defect in is_6531_local (fixed, 92adef0)."),
'C03-f': ("is_6531_local: previous character kept in a 'char last' instead of a byte index", "a non-ASCII character whose code point ends in 0x2E directly before an opening quote outside quotes: U+012E\"a\" accepted",
          "MISSED at first (scalars were swept in a.X.b and four other surroundings, none with a quote after X). Every scalar, single and doubled, now runs in 34 surroundings (atom text, dot, quote on either side, backslash, white space, quoted counterparts, comment parentheses)."),
'C04-f': ("new whole-address length guard 'length >= 319' in the three ASCII validators (forgets the '@')", "64-octet local part + 253-character domain + root dot, tld_check off",
          "MISSED at first (every domain sweep used the local part 'x'). C04's length generators also run behind a 64-octet local part; C01 got the product local part 1..70 (3 shapes) x domain 240..262 (3 layouts, root dot)."),
'C05-f': ("HAVE_IDNKIT copy of INIT_EAV_RESULT_T: is_ipv6 no longer reset", "idnkit build, any validation whose malloc'ed record reuses a dirty chunk: accepted IPv4 literal reports is_ipv6 too",
          "MISSED at first (C05 ran on the default build only; the three-backend checks saw clean memory). The shim allocator now pre-fills every block with 0xA5 (C13/C15/C18/C19), and C05 runs its structured generators again on the idn and idnkit builds (mode 6531 through a long-lived eav_t on idnkit)."),
'C06-f': ("is_ipv4: operands of the 0.0.0.0 test reordered, strspn(start, \"0.\") runs at every dot", "a literal with very many dots that begins with a long run of '0' and '.': quadratic work, verdicts unchanged",
          "MISSED at first (the long corpus had 12 fillers, none of them '0.', and never inside brackets). CP_LONG now has 24 fillers (0. 1. 0 0: 1: :: SP CRLF-SP \\\" a- xn-- U+00AD ...) and puts every filler inside 5 complete-address wrappers (untagged / tagged literal, quoted local part, host name, local part); the cost monitor reports 'work-not-linear' at 405 bytes."),
'C07-f': ("is_special_domain: example.{com,net,org} test bounded by the INPUT label's length", "second-level label that is a proper prefix of 'example' (e, ex, ..., exampl) before com/net/org: classified special",
          "MISSED by C07 at first (C09's one-edit neighbours reported 'exampl.com'). New corpus 'depth' (also read by C07 and C09): 24 suffixes behind every sequence of 0-4 labels over 6 shapes, behind 5..126 one-letter labels, and every proper prefix / suffix of each reserved label in its place."),
'C08-f': ("is_special_domain: label-skipping loop searches the next dot from start instead of cp", "four or more labels: a.b.c.test not special, a.b.test.com special",
          "MISSED by C08 at first (C07 and C09 reported it). C08's veto product got a fourth oracle - both halves valid by the reference and an ASCII host name: the decision under each of the 14 masks is the bit of the class the shipped data gives the name - and reads the 'depth' and 'tld' corpora."),
'C09-f': ("is_special_domain: label-count loop bounded by LABEL_SIZE (64)", "more than 64 dots before a reserved name", "MISSED at first (the label-count sweep of C04 used plain TLDs). The 'depth' corpus puts every suffix behind 5..126 one-letter labels; C09 reads it."),
'C10-f': ("is_utf8_domain (3 back ends): reserved-name test skipped when the converted name starts with xn--", "tld_check on, first label an IDN label, reserved suffix: 6531 disagrees with the ASCII modes on the A-label", "reported at once (A-label spelling compared across modes)."),
'C11-f': ("both CSV files re-exported without their title line, table and test list regenerated (generators drop line 1 unconditionally)", "the TLD on the first physical line (aaa) is missing from the table",
          "MISSED at first: the harness's CSV reader skipped line 1 the way the generators do, so every cross-check agreed. It now skips line 1 only if it is not a data row (second field an IANA type); the row walk then misses 'aaa' in is_tld, in the validators and in tld-domains.txt."),
'C12-f': ("is_utf8_domain (idn2): a rooted name drops the root dot and looks up the label in front of it", "tld_check on, rooted domain with a real TLD: accepted in 6531, 'invalid TLD' in the ASCII modes", "reported at once (pure-ASCII cross-mode comparison on the short-string corpus: x@a.aZ.)."),
'C13-f': ("eav_is_email (idn2): the INFRASTRUCTURE arm of the policy switch no longer stores its error code", "tld_check on, .arpa address, mask without the infrastructure bit: errcode is whatever the previous call left",
          "MISSED at first (no .arpa address in the history pool). New 'polpairs' product: 17 class / form representatives x 14 masks x 4 modes, each validated right after every one of the 150 feature addresses on the same object, against a fresh object."),
'C14-f': ("is_special_domain: root dot cut off with strtok()", "any address under example.{com,net,org}: libc's process-wide strtok position written without synchronisation (library outcomes unchanged, TSan blind inside libc)",
          "MISSED at first. New third step of C14, the closure of the scheduler's libc model: the import table of the library objects (nm -u) is enumerated and checked against the functions glibc/POSIX mark MT-Unsafe for hidden static state; imports that are neither modelled as scheduling points nor on the list are reported in the evidence."),
'C15-f': ("is_5322_local: look-behind list of the quoted white-space rule lost its TAB case", "mode 5322, quoted TAB followed by white space and text: valid local part refused as 'unquoted characters'", "reported at once (C15: local-part code although the reference accepts the local part)."),
'C16-f': ("check_ip: tagged and untagged branches merged, the family is chosen by ':' in the body only", "[IPv6:1.2.3.4]: accepted with is_ipv4 set",
          "MISSED by C16 at first (C05 and C01 reported the wrong acceptance). C16 now applies 'either half syntactically invalid => no flag' whatever the decision was."),
'C17-f': ("is_6531_local under RFC6531_FOLLOW_RFC5322: white space after an escaped DQUOTE no longer counts as following a DQUOTE", "option build, pure-ASCII quoted local part with \\\" + white space + text",
          "MISSED at first in the quick tier (needs 6 tokens inside a local part; the local corpus stops at 4). The local corpus now also enumerates quoted-string BODIES of <= 6 (7) tokens over {a \\ \" SP HT CRLF U+0416}, alone and as x.\"...\".y."),
'C18-f': ("idnkit eav_setup: case EAV_RFC_5321 assigns is_822_email", "idnkit build, mode 5321, control character in a quoted local part", "reported at once (lock-step BFS and three-backend corpus)."),
'C19-f': ("eav_free (3 back ends) also clears idnmsg but leaves errcode", "IDN failure, then eav_free, then eav_errstr: NULL",
          "MISSED at first (eav_errstr was only read right after a validation). The free+init transition of the history search now reads eav_errstr between eav_free and eav_init and requires the text it had before."),
'C20-f': ("CLI: comment test moved after the leading-space trim", "a line starting with SP '#': treated as a comment, no verdict", "reported at once (line menu contains ' #c')."),
}
if __name__ == '__main__':
    for k, (chg, needs, hist) in M.items():
        p = '/verif/seeded/%s/meta.json' % k
        d = json.load(open(p))
        d['change'] = chg; d['what_it_needs_to_manifest'] = needs; d['history'] = hist; d['round'] = 6
        json.dump(d, open(p, 'w'), indent=1)
    print('ok', len(M))
