#!/bin/bash
# usage: lib/seedtry.sh <patch.diff> ID [ID...]  - applies a patch to a scratch copy of /repo (no suite run) and runs the quick checks with REPO=<scratch>
set -u
T=$(mktemp -d /tmp/seedtry-XXXXXX); mkdir -p $T/r && git -C /repo archive HEAD | tar -x -C $T/r      # the committed tree: /repo's working tree may hold a seed patch of a concurrent reseed run
(cd $T/r && patch -p1 -s < "$1") || { echo "patch failed"; rm -rf $T; exit 2; }
shift
for id in "$@"; do REPO=$T/r $(dirname $0)/../run $id ${TIER:-quick} 2>&1 | grep -E "^VIOLATION|^KNOWN|HARNESS|quick:|thorough:" | cut -c1-300 | head -6; echo "  -> $id exit=${PIPESTATUS[0]}"; done
rm -rf $T
