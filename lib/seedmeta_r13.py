#!/usr/bin/env python3
"""Round 13 of the seeded changes (see seedmeta_r5.py)."""
import json
M = {
'C01-m': ("check_ip: the tag is located with memchr(':') and compared with strncasecmp(tag, \"IPv6\", length of the INPUT tag)", "a truncated tag: [IPv:2001:db8::1], [IP:...], [I:...] accepted",
          "MISSED by C01 at first (C05 reported it; C01's bracket-content alphabet has the tag as one token). New corpus 'edit': every deletion of 1-3 adjacent bytes, every doubled byte and every swap of neighbours in 16 complete addresses - a keyword that is SHORTENED is not reachable by substitution; read by C01, C17, the sinks, C06 and the history search."),
'C02-m': ("is_5322_local: the white-space look-behind reads start[prev] with prev an unsigned int", "ranges longer than 4 GiB: the byte 2^32 positions before the real predecessor decides (valid refused, invalid accepted)",
          "MISSED at first in the quick tier (2^31+5 was its longest length; no long shape had white space whose verdict depends on its predecessor). The quick tier gets 2^32+5; five look-behind shapes (a quoted string that starts / ends with a space, a lone space between letters ...) join the 'huge' phase."),
'C03-m': ("mode 6531 counts the 64-octet limit of the local part in characters (utf8_strlen hook)", "well-formed non-ASCII local part of 65+ octets and <= 64 characters accepted", "reported at once (email context of the multi-byte token strings: > 64 octets must be refused)."),
'C04-m': ("is_ascii_domain refuses labels that start with xn--- (ACE prefix followed by a hyphen)", "ASCII modes: xn---abc.com refused as misplaced hyphen", "reported at once (hyphen runs of round 12, ascii strings over {a Z 1 - . xn-- com})."),
'C05-m': ("check_ip: tag skipping and family choice merged: IPv6: followed by a dotted quad goes to is_ipv4", "[IPv6:192.0.2.1] accepted with is_ipv4 set", "reported at once (structured literal grid: every tag x every tail)."),
'C06-m': ("is_special_domain records label starts in char *labels[127]; the bounds test runs before the increment", "the host name with 127 dots (127 one-character labels + root dot): one pointer stored past the array", "reported at once (ASan/UBSan on the label-count ladder of the long corpus)."),
'C07-m': ("is_special_domain finds the last labels by scanning backwards over ISALNUM only: '-' acts as a label boundary", "my-example.com, mail.pre-test classified special", "reported at once (reserved look-alikes behind a hyphen since round 10)."),
'C08-m': ("is_special_domain: the example.{com,net,org} test loops over the labels and breaks at the FIRST label 'example'", "example.example.com, Example.mail.example.net: classified generic", "reported at once (depth corpus: reserved words as front labels)."),
'C09-m': ("is_special_domain: strncmp on a lower-cased copy whose fold helper handles 64 bytes only", "ASCII modes: upper-case reserved last label behind a 55-63 character label: not special", "reported at once (reserved suffixes x label of every length x case patterns)."),
'C10-m': ("is_utf8_domain strips a trailing full stop (ASCII or wide) before the conversion and re-appends it only for the ASCII one", "a name ending in U+3002 / U+FF0E / U+FF61 is validated without its root", "reported at once (altdot corpus: U-label vs A-label of rooted names)."),
'C11-m': ("is_tld: an #ifdef _DEBUG printf between the brace-less if and its return", "`make debug` build only: every look-up returns the class of the first table row",
          "MISSED at first (no check compiled with -D_DEBUG). New C11 step: all look-ups again on the `make debug` build (the library's trace output discarded)."),
'C12-m': ("is_utf8_domain: is_special_domain is only asked when the FIRST label has at most 9 characters", "mode 6531: mailserver01.test is 'invalid TLD', the ASCII modes say special", "reported at once (plain-ASCII cross-mode agreement on the depth / embed corpora)."),
'C13-m': ("eav_errstr looks the IDN message up lazily from result->idn_rc and caches it", "IDN error, no eav_errstr call, eav_free, then eav_errstr: NULL dereference",
          "reported at once by the poisoned-memory differential; the harness's habit of reading eav_errstr after every call would hide a lazily filled cache, so a phase 'unobserved' reads the message ONLY at the end (later / after eav_free / after a second call and eav_free) for every feature address x mode x tld_check on every back end."),
'C14-m': ("is_tld: after a table miss on a label with a capital I, a locale probe whose answer is kept in a static int", "cold start, two threads looking up unlisted labels with a capital I: unsynchronised stores; outcomes unchanged",
          "MISSED at first (every thread harness looked up LISTED names, a fall-back after a table miss was never reached). Harness W18: unlisted labels in capitals through is_tld and the ASCII modes from a cold start - decided by the write-set oracle and the ThreadSanitizer pass (two full table walks are beyond interleaving enumeration: stated in the evidence)."),
'C15-m': ("check_ip: the IPv6: tag compared with strncmp", "[ipv6:...], [IPV6:...]: valid literal refused with 'ip-addr is incorrect'", "reported at once (composition clause of round 11: is_ipv6 accepts the text; C05's tag spellings)."),
'C16-m': ("is_ipv4: the > 255 test moved to the end of each octet, accumulator unsigned int", "an octet >= 2^32 that wraps to <= 255 ([4294967297.2.3.4]): accepted with is_ipv4 set",
          "MISSED by C16 at first (C05 reported it; the shared literal corpus stopped at 300). The structured-literal corpus gets octets of 2^8+k, 2^16+k, 2^31+k, 2^32+k, 2^64+k and zero-padded ones in every position, plain and as IPv6 tail."),
'C17-m': ("is_special_domain: label walks through a helper that steps over ISALNUM and '-' only (no #ifdef LABELS_ALLOW_UNDERSCORE)", "UNDERSCORE builds: my_host.localhost, a_b.test not recognised as reserved",
          "MISSED at first (the option was compared on decisions with TLD checking off, and side by side only where no '_' occurs). New C17 step: C09's generators on the UNDERSCORE build with the reference knowing '_' as a letter, every name with two or more labels also with a '_' inside its first label."),
'C18-m': ("partial/idnkit/eav.c: eav->utf8 = false moved inside if (eav->initialized)", "idnkit build: eav_setup(6531) fails in the IDN library, fall-back eav_setup to an ASCII mode succeeds, validation still goes to is_6531_email with a dead context", "reported at once (context-failure transitions in the lock-step search)."),
'C19-m': ("is_utf8_domain: alternative dots pre-mapped into a copy; the second converter block returns directly on failure", "a domain with U+3002 / U+FF0E / U+FF61 and a failing conversion that left a buffer: the buffer leaks", "reported at once (fault corpus sweep over the altdot corpus)."),
'C20-m': ("bin/main.c parse_file: the new ferror branch took the fclose with it", "more files on one command line than the open-file limit: the rest get no verdicts",
          "MISSED at first. The open-file limit is an environment input like the stack limit: 60 small files on one command line with RLIMIT_NOFILE = 24."),
}
if __name__ == '__main__':
    for k, (chg, needs, hist) in M.items():
        p = '/verif/seeded/%s/meta.json' % k
        d = json.load(open(p))
        d['change'] = chg; d['what_it_needs_to_manifest'] = needs; d['history'] = hist; d['round'] = 13
        json.dump(d, open(p, 'w'), indent=1)
    print('ok', len(M))
