#!/bin/bash
# usage: lib/mutant.sh <patchfile|-e 'sed-expr' file> -- ID [ID...]
# applies a change to a scratch copy of /repo, runs the repo's own suite there, then the given checks (quick) with REPO=<scratch>
set -u
T=$(mktemp -d /tmp/libeav-mut-XXXXXX)
rsync -a --exclude .git /repo/ "$T/r/"
if [ "$1" = "-e" ]; then sed -i -E "$2" "$T/r/$3"; shift 3; else (cd "$T/r" && patch -p1 -s < "$1") || { echo "patch failed"; rm -rf "$T"; exit 2; }; shift; fi
[ "$1" = "--" ] && shift
(cd "$T/r" && diff -ru /repo/src src | head -30; diff -ru /repo/partial partial | head -30; diff -ru /repo/include include | head -30; diff -ru /repo/bin bin | head -20) 2>/dev/null | grep -E '^[-+][^-+]' | head -20
( cd "$T/r" && make clean >/dev/null 2>&1; make >/dev/null 2>&1 && make check >"$T/suite.log" 2>&1 ) && echo "SUITE: PASS" || { echo "SUITE: FAIL"; tail -5 "$T/suite.log"; }
for id in "$@"; do
  REPO="$T/r" /verif/run "$id" ${TIER:-quick} 2>&1 | cut -c1-260 | tail -4
  echo "  -> $id exit=${PIPESTATUS[0]}"
done
rm -rf "$T"
