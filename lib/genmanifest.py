#!/usr/bin/env python3
"""Regenerates /verif/MANIFEST.json from the check table (lib/checks.py) and the texts below."""
import os, sys, json
sys.path.insert(0, os.path.dirname(os.path.abspath(__file__)))
import checks as CK

T = {
 'C01': ('exploration', 'E-INPUT', 'bounded-exhaustive enumeration + reference model + composition oracle',
         "Every string over a 12-class alphabet up to 6 (thorough 8) tokens, every byte at 19 structural positions (+pairs), length/placement ladders, in 4 modes x tld on/off: decision equals the three-valued reference (split at last '@', 1-64 octets, ref_local, ref_domainpart / independent IDN conversion); rc equals the composition of the library's own part validators on stand-alone copies (DC-4 for simultaneous reasons); eav_is_email == is_<rfc>_email incl. mode binding before/after other setups. Plus bracket-content odometer and octet products (zero octets), and the long-input corpora (U-label domains beyond 255 UTF-8 bytes, soft-hyphen padding to 3 KiB, alternative dots, label tails, maximal literals + junk, 40 local-part shapes x 36 domain parts, every code point as a whole domain). Plus 'huge' inputs: five oversized-part shapes at every length k*2^8+d and k*2^16+d (d = 0..70, 250..258; thorough also 2^24, 2^31, 2^32 + d) - the lengths at which a counter narrower than size_t wraps - must be rejected in every mode.",
         "Trusted: the reference models in ref/ (written from the property text), libidn2 for the independent U->A conversion in mode 6531. Strings longer than the stated bounds with >2 deviations are not covered.", '4/C01'),
 'C02': ('model_checking', 'E-INPUT', 'explicit reference DFA x implementation product exploration (W-method binding) + bounded-exhaustive strings',
         "The three ASCII scanners are compared with explicit byte-level reference DFAs (35 product states incl. the strict/lenient DC-1 pair): L1 all strings of <=6 (8) tokens over 13 byte classes; L2 every reference state x every byte 0x01-0xFF x every continuation of <=3 tokens, plus the explicit W-method suite S.Sigma.Sigma_c^<=m.W (m=2, thorough 3) and all byte pairs; L3 long inputs with <=2 deviations; three call contexts (NUL-terminated, followed by '@', through eav_is_email).",
         "If the implementation's language is recognised by an automaton with at most |Q_ref|+m states whose behaviour beyond the first deviating byte respects the class partition, agreement on the L2 suite implies agreement on all strings; L1 needs no assumption. DC-1 strings (escaped quote/whitespace as neighbour of whitespace in mode 5322) are ANY.", '4/C02, 3.1'),
 'C03': ('model_checking', 'E-INPUT', 'explicit reference DFA (UTF-8 x RFC 5321 grammar) product exploration + exhaustive UTF-8 sweeps',
         "Mode 6531 scanner vs the byte-level product DFA (strict UTF-8 Table 3-7 x grammar, 21 states): L1 <=6 (8) tokens over 12 classes incl. 2/3/4-byte characters and stray bytes; L2 + W-method as C02 over all 255 bytes in every state incl. mid-character states; ALL 1-, 2- and 3-byte sequences and a boundary cover of 4-byte sequences in five contexts (thorough: all 4-byte sequences with a non-ASCII lead); a.X.b for every one of the 1,111,936 non-ASCII scalars; pure-ASCII strings differential against is_5321_local; a refusal with a positive code is followed through eav_is_email with every TLD class allowed.",
         "Same W-method assumption as C02. Default build only (options are C17).", '4/C03'),
 'C04': ('exploration', 'E-INPUT', 'bounded-exhaustive enumeration + counter ladders against a splitter reference',
         "All strings of <=7 (9) tokens over {a,Z,1,-,.,_,!,0x80}; 25 base domains x every position x every byte (insert/substitute) + adjacent byte pairs; every label length 0..70 in every position of 1..5-label domains, hyphen at every position, every total length 235..262 x last label 1..63 x root dot; through is_ascii_domain, the three ASCII address validators, is_utf8_domain and is_6531_email (expected value in mode 6531 = reference applied to an independent libidn2 conversion). Plus U-label domains of 1-7 labels x 8-56 letters and soft-hyphen padded domains up to 3 KiB (mode 6531), alternative dots, label tails of 58-70 characters; the label COUNT sweep (n = 1..140 equal labels of 1..63 characters, 127 x 1 = 253 included); the empty domain handed to is_utf8_domain.",
         "ref_domain() is a splitter with no running counters written from the statement. Mode 6531 trusts libidn2 for the conversion itself (DC-6).", '4/C04'),
 'C05': ('exploration', 'E-INPUT', 'bounded-exhaustive enumeration + structured products against a recursive-descent reference',
         "Raw token strings after x@ (<=6/8 tokens, brackets in the alphabet) and as bracket content (<=7/9 tokens); 18^4 octet spellings, every value 0..300 in every position, 3/5 octets, stray dots; IPv6 shapes: groups before/after '::' 0..8 x 27 group spellings (widths 0..5, zero-led, over-wide, very long, non-hex) at every index x 6 tails x 8 tags x stray colons; every literal behind 3 local-part shapes (one quoted with a colon, one quoted with dots, brackets and '@'); every byte before/after each bracket and at every content position, every 1-2 tokens after ']'; 4 modes x tld on/off; family flag; the part validators on stand-alone copies and with 14 different tails placed after the end pointer. Plus maximal-length valid literals followed by junk inside/after the brackets and every proper prefix.",
         "Three-valued: must-reject uses the permissive RFC 4291 grammar (tag optional, case-insensitive), must-accept the strict RFC 5321 4.1.3 grammar with literal 'IPv6:' and non-zero first octet (DC-2).", '4/C05'),
 'C06': ('exploration', 'E-INPUT + monitors', 'bounded-exhaustive enumeration under sanitizer / guard-page / cost / memcheck monitors',
         "All corpora (token odometers, table rows, IDN products, every byte at every template position, length ladder to 64 KiB, local-part x domain-part shapes, every code point of the default-ignorable ranges - thorough: every scalar - as a whole domain) through every public entry point, each input in a fresh exact-size heap buffer under ASan+UBSan with a LeakSanitizer query per shard; again against PROT_NONE guard pages on both sides (plain build); deterministic cost (basic blocks + libc bytes) <= 64n+30000 per call; the C13 history search to depth 3 under valgrind memcheck with the eav_t in uninitialised heap memory (the poison differential over all histories is part of C13).",
         "UB that no sanitizer models and allocation failure inside libeav are out of scope; work inside libidn2 is not counted.", '4/C06'),
 'C07': ('exploration', 'E-INPUT', 'complete enumeration of the table and its one-edit neighbourhood',
         "Every CSV row x 5 case variants x 0-4 preceding labels (8 shapes incl. 7-letter, 63-letter, TLD and reserved names), as first/middle label before an unlisted label, every proper prefix/suffix, deletion, substitution, insertion over [a-z0-9-] of every row behind two prefixes, every 1-3 character last label, single labels, every U-label of raw.csv in mode 6531, every row of the library's own tld_list (lower and upper case) as last label; 4 modes, direct and through the object API with allow-all / allow-none masks.",
         "The class map is read from data/punycode.csv by the harness's own CSV reader with the generator's documented rule; ASCII spellings that libidn2 refuses in mode 6531 are skipped there (C10).", '4/C07'),
 'C08': ('exploration', 'E-INPUT', 'complete enumeration of the finite configuration space',
         "All 2^11 masks x 4 modes x tld_check on/off x (two real addresses per class present in the table, reserved names, unlisted TLD, single label, IPv4/IPv6 literals, syntactically invalid addresses) plus a caller-installed callback returning each class 1..9, 0 and each negative code (reaches the 'test' and 'retired' arms); eav_init defaults and bit numbering. Plus the 'veto' product over 7 address corpora x 14 masks (0, all, default, each single bit) x tld on/off x 4 modes: the mask is irrelevant with tld_check off; accepted under some mask => accepted with tld_check off; reference REJECT => refused under every mask.",
         "The callback injection uses the public ascii_cb/utf8_cb fields.", '4/C08'),
 'C09': ('exploration', 'E-INPUT', 'bounded-exhaustive enumeration of label lengths, case patterns and edit neighbours',
         "8 reserved suffixes x a preceding label of EVERY length 0..63 (5 contents incl. 7-letter words) x all 2^letters case patterns; second label of every length 1..63, third label lengths; every one-edit neighbour of each suffix behind 9 prefixes in 2 cases; 4 modes and is_special_domain directly.",
         "Domains with a root dot are outside the statement.", '4/C09'),
 'C10': ('exploration', 'E-INPUT', 'bounded-exhaustive enumeration with an independent conversion as oracle',
         "All labels of 1-2 (3) symbols over 35 symbols of 8 scripts + ASCII in 1-3-label domains x 4 suffixes, every table row as last label, every IDN TLD in U- and A-form, all ASCII strings over {a,Z,1,-,.,xn--,com}, every 2-byte pattern inside a label, symbol/hyphen/length families: (6531,U)==(6531,A) in rc and flags, ASCII modes == 6531 on the A-label, all-ASCII clauses, rejection when the independent conversion fails. Plus the long-input corpora and ordered-pair sweeps (every ordered pair of a family of long domains sharing a >= 255-byte prefix, and of the 1296 domains b.XY, second right after the first), every Unicode scalar value as a label of its own and after a letter, every default-ignorable code point as a whole domain.",
         "IDNA2008 validity itself is libidn2's (DC-6).", '4/C10'),
 'C11': ('exploration', 'E-INPUT + translation validation', 'complete enumeration of a finite artefact + re-running the generators',
         "Every CSV row looked up (5 case variants, through is_tld and through the four address validators with TLD check on) and compared with tld_list[] entry by entry (order, count, length field, class, lower-case A-label, duplicates); every 1-3 character label and every one-edit neighbour / proper prefix / suffix of every row must be unlisted unless the CSV lists it; tld-domains.txt and raw.csv row by row; both Perl generators are executed on the shipped CSVs (Text::CSV stand-in cross-checked against Python's csv) and their output compared line by line with the shipped files.",
         "Text::CSV is not installed; a 50-line stand-in is used and cross-checked row by row.", '4/C11'),
 'C12': ('exploration', 'E-INPUT', 'bounded-exhaustive enumeration with relational oracles (no model)',
         "The nine corpora in 4 modes x tld on/off: pure-ASCII addresses without quote/backslash in the local part get the same rc in all modes (6531 may say IDN error); accepted in 5321 => same rc in 822; x@D gives identical rc and flags in the three ASCII modes. Plus the ordered-pair sweep over the 1296 addresses x@b.XY (each relation checked for the second address right after the first, same mode and tld_check).",
         "No reference model is involved.", '4/C12'),
 'C13': ('model_checking', 'E-HIST', 'explicit-state BFS over API histories to a fixpoint, every transition a real library call',
         "BFS over {rfc:=6 values, tld_check:=2, allow_tld:=3/4 masks, eav_setup, eav_is_email(8/16 addresses), eav_free;eav_init}, states = canonical serialisation of the whole eav_t + model variables, to the fixpoint (8k/21k states): every eav_is_email outcome (return, errcode, message, result record) equals a fresh object's with the confirmed mode and current settings; errstr stable; at most one live result record; eav_free releases everything; free+init == first init; every transition replayed under 2/4 poison fills of the object memory. A second search adds a second, independent eav_t validated in between (its calls must not change the first object, and vice versa). Pool of 11/20 addresses incl. two > 255-byte U-label domains sharing 255 bytes, a > 320-byte address and a 300-character label; an ordered-pair sweep over 1296 addresses x 3 configurations on one object; a cross-mode pair product: every ordered pair of 150 feature addresses (rooted / upper-case / IDN / literal / degenerate shapes) x every ordered pair of the 8 (mode, tld_check) configurations, first call on one object and second on another, and both on one object with a mode switch in between, second outcome == outcome in a fresh library state.",
         "Two histories with the same canonical state have the same futures because the state contains every field the API reads (checked by the poison differential and by E-SCHED's constant digest of the library's static data).", '5/C13, 3.2'),
 'C14': ('model_checking', 'E-SCHED', 'controlled-scheduler exploration of all interleavings (state-caching DFS, preemption-bounded fall-back) + free-running TSan pass',
         "10 two-thread (thorough +4 three-thread) harnesses of real pthreads under a semaphore hand-off scheduler with scheduling points at every basic-block edge, every load/store of shared memory and every libc call of the library; state = (progress vector, digest of libeav's static data + shared input strings); DFS with a visited set covers all interleavings while the digest is constant, else iterative preemption bounding 0..2(3); oracle = every thread's observations equal the sequential run. The same bodies plus 2..16-thread validation loops run free under ThreadSanitizer.",
         "libidn2/libunistring internals are atomic for the scheduler and uninstrumented for TSan; hardware memory-model effects are not modelled (irrelevant while nothing shared is written).", '5/C14, 3.3'),
 'C15': ('exploration', 'E-INPUT + E-HIST', 'bounded-exhaustive enumeration with per-code truth predicates',
         "The nine corpora through eav_is_email in 4 modes x {tld off, tld on default mask, tld on mask 0}: return 1 iff errcode 0; message non-empty and the documented one for the code (IDN: idn2_strerror of the returned code); one truth predicate per error code evaluated on the input (on the A-label form in mode 6531); every code is produced (test/retired through an injected callback); eav_setup over 14 rfc values x 5 prior modes x 3 backends.",
         "The message table is a frozen copy of the documented texts.", '5/C15'),
 'C16': ('exploration', 'E-INPUT', 'bounded-exhaustive enumeration with invariants on the result record',
         "The nine corpora, 4 modes x tld on/off, default build and -DEAV_EXTRA build: at most one flag; rc>=0 => exactly one flag matching the form (host name / IPv4 / IPv6 per the reference); either half syntactically invalid (reference) => no flag; rc domain (0 without TLD check, class only for host names with TLD check, negative otherwise); EXTRA: lpart/domain byte-equal to the halves on acceptance, NULL when syntactically invalid. The same invariants are checked on eav_t.result of long-lived objects after eav_is_email (return value, errcode and record must agree; no stale record). The corpora include 40 local-part shapes holding what the domain-part parsers look for x 36 domain parts.",
         "DC-5/DC-7: flags of policy rejections and rc of accepted literals with TLD checking are only loosely pinned by the statement.", '5/C16'),
 'C17': ('exploration', 'E-INPUT', 'differential enumeration over 8 side-by-side builds',
         "8 option builds loaded side by side; every corpus address, 4 modes x tld on/off; each build compared with the one having one option fewer (deltas compose): RFC20, UNDERSCORE, RFC5322 change exactly the documented decisions (reference-checked) and nothing else; is_6531_local == is_5322_local on pure-ASCII local parts in RFC5322 builds, malformed UTF-8 stays rejected; in every build the mode-6531 local-part verdict does not depend on which well-formed non-ASCII characters are used (each replaced by U+0416); make -n shows the three -D flags exactly when requested and none by default.",
         "DC-3: RFC5322 builds on local parts mixing non-ASCII with control/whitespace are only required to reject malformed UTF-8.", '5/C17'),
 'C18': ('model_checking', 'E-HIST', 'lock-step explicit-state BFS over three backend builds + resource ledger',
         "partial/idn and partial/idnkit are compiled unmodified against stub headers whose implementation forwards to the same libidn2 converter; the C13 search runs with the three objects advanced in lock-step (state = triple): equal outcome at every step; idnkit resolver-context ledger (<=1 live, never destroy/use dead, released by setup to an ASCII mode and by eav_free); a second search on the idnkit build alone with idn_resconf_create / initialize failures as transitions; the corpora (table rows, IDN products, token odometers, byte sweeps) through the three builds side by side, outcome strings compared.",
         "What the real libidn / idnkit would convert differently is out of scope ('given equivalent IDN conversions').", '5/C18'),
 'C19': ('fault_enumeration', 'E-HIST', 'explicit-state BFS with environment-fault transitions + exhaustive single/double fault runs',
         "The conversion call is interposed (-Wl,--wrap=idn2_to_ascii_8z): the C13 search with transitions carrying any of 31 libidn2 codes x {no output buffer, buffer allocated} (<=2 faults per history), plus runs of n=1..8 (50) validations with a single fault at every position x every code x both buffer modes and all double faults for n<=6 over 6 codes: faulted call rejected with EEAV_IDN_ERROR, idn_rc, the converter's own message (idn2_strerror of the code, also with tld_check off), no flag; ledger: no leak, no double free; the next call equals a fresh object's.",
         "The fault model is the return value / output buffer of the one conversion call the library makes.", '5/C19'),
 'C20': ('exploration', 'E-INPUT', 'bounded-exhaustive enumeration of input files through the real binary under sanitizers',
         "All sequences of 0..2 (3) lines over 17 (26) line shapes x LF/CRLF per line x final newline, long lines 1023..8192 bytes (ASCII, multi-byte, one straddling 2048), NUL-containing files: bin/*.c built with ASan+UBSan+LSan and linked shared like bin/Makefile; exit status, one verdict per non-comment line in order, verdict and message equal the library's (plain build via ctypes) after the documented trimming, clean UTF-8 lines echoed verbatim. Plus every line length within +-6 of 128..4096 (powers of two) followed by further lines, and a 2-/3-/4-byte character whose lead byte sits 0..w+1 bytes before each multiple of 256..8192 on longer lines.",
         "Lines containing NUL only require robustness and one verdict.", '5/C20'),
}

def main():
    checks = []
    for pid in sorted(CK.CHECKS):
        cat, eng, tech, text, note, ref = T[pid]
        checks.append({
            'property_id': pid,
            'quick_cmd': './run %s quick' % pid,
            'thorough_cmd': './run %s thorough' % pid,
            'evidence_file': 'evidence/%s.json' % pid,
            'replay_cmd_template': './run replay {path}',
            'engine': eng,
            'level_claimed': {'category': cat, 'text': text, 'design_ref': 'DESIGN.md ' + ref},
            'level_note': note,
            'technique': tech,
        })
        assert CK.CHECKS[pid]['level'] == cat, pid
    m = {
        'version': 1,
        'setup_cmd': './run setup',
        'hooks': {
            'guard': 'LIBEAV_VERIF',
            'enable': 'checks compile /repo\'s sources out of tree with -DLIBEAV_VERIF; no source hook exists (scheduling points come from clang coverage instrumentation, libc / libidn2 are interposed at link time with --wrap, private eav_t fields are in the public header)',
            'baseline_off_cmd': './run baseline',
            'source_commits': [],
            'add_only': True,
        },
        'engines': [
            {'name': 'E-INPUT', 'path': 'mc/mc.h, drv/*.c, ref/*.h', 'serves_properties': ['C01', 'C02', 'C03', 'C04', 'C05', 'C06', 'C07', 'C08', 'C09', 'C10', 'C11', 'C12', 'C15', 'C16', 'C17', 'C20'],
             'kind_free_text': 'bounded-exhaustive enumeration of input spaces (token odometers, byte x state products, counter ladders, finite tables) against reference automata / relational oracles, fork-sharded'},
            {'name': 'E-HIST', 'path': 'drv/hist.c, drv/shim.c', 'serves_properties': ['C13', 'C15', 'C18', 'C19', 'C06'],
             'kind_free_text': 'explicit-state BFS over API histories of a real eav_t to a fixpoint, states = canonical object serialisation, environment faults as transitions'},
            {'name': 'E-SCHED', 'path': 'sched/esched.c, sched/tsanrun.c', 'serves_properties': ['C14'],
             'kind_free_text': 'controlled scheduler over compiler-inserted scheduling points, state-caching DFS over all interleavings, preemption-bounded fall-back, free-running ThreadSanitizer pass'},
        ],
        'checks': checks,
        'not_applicable': [],
        'notes': 'All 20 properties are claimed. Genuine defects found on the pinned tree were repaired by fix: commits in /repo and are listed as fixed in known_findings.json; there is no open known finding.',
    }
    json.dump(m, open(os.path.join(CK.V, 'MANIFEST.json'), 'w'), indent=1)
    print('MANIFEST.json written with %d checks' % len(checks))
main()
