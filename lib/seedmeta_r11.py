#!/usr/bin/env python3
"""Round 11 of the seeded changes (see seedmeta_r5.py)."""
import json
M = {
'C01-k': ("basic_email_check goes through an overridable lpart_length(); mode 6531 counts the 64 limit in UTF-8 characters instead of octets", "mode 6531, well-formed non-ASCII local part of 65..256 octets with at most 64 characters: accepted",
          "reported at once (length ladder with multi-byte fillers; reference REJECT above 64 octets)."),
'C02-k': ("is_5321_email skips a leading RFC 5321 source route '@hop,@hop:' before validating", "mode 5321: '@x:a@example.com' accepted although '@' and ':' are specials",
          "MISSED by C02 at first (C12 reported it: the ASCII modes disagree). The reference has ONE class 'special', so the W-method product took one representative '(' . New phase L1spec: all strings of <= 5 (thorough 6) tokens over {a . @ ( ) < > , ; : [ ] \" \\ SP !} in all call contexts."),
'C03-k': ("utf8_decode_next: the 4-byte lead test (c & 0xF8) == 0xF0 became (c & 0xF0) == 0xF0", "lead bytes F8..FF alias F0..F7: F8 90 80 80 accepted as a character", "reported at once (U4 lead x boundary continuation product)."),
'C04-k': ("is_5321_email strips a leading '<' and a trailing '>' (RFC 5321 'Path')", "mode 5321, tld_check off: '<user@mail.host>' accepted, is_ascii_domain called with an end pointer that is not at the NUL",
          "MISSED at first by C04 and C01 (no generator paired an opening byte in the local part with a closing byte behind the domain). C04: every rejected domain of the L2 byte sweep is also tried behind 31 'opening' local parts (<x (x \"x ... ; thorough: every byte) and must stay rejected. New corpus 'wrap': every byte in front of x every byte behind 5 complete addresses (257 x 257 pairs) and 32 bracket/quote/scheme/route wrappers around the address, the local part and the domain - read by C01, C17, the sinks (C12, C15, C16), C06 and the history search."),
'C05-k': ("check_ip: new length limit bre - brs > 15 in front of is_ipv4 (off by one: brs is the bracket)", "every 15-byte dotted quad ([255.255.255.255]) refused", "reported at once (octet spellings ^4)."),
'C06-k': ("is_special_domain copies the last two labels at once into label[2*63+1] and writes label[len] = 0 with the guard len > LABEL_SIZE", "last two labels both exactly 63 characters: one NUL byte past the array (silent without instrumentation)", "reported at once (ASan on the label-length ladder and the long U-label domains)."),
'C07-k': ("errors[] table: the text for EEAV_TLD_SPONSORED reads 'special TLD'", "a sponsored TLD refused by the mask is reported under the name of another class; codes unchanged",
          "MISSED by C07 at first (C15 reported it). C07's object-level comparison now also reads eav_errstr when an empty mask refuses a listed row: the message must be the row's IANA type followed by ' TLD'."),
'C08-k': ("is_tld: strncasecmp replaced by a hand-written fold that equates bytes differing by 32", "ASCII modes: 'XN--PQAI' matches the row xn--p1ai ('1' ~ 'Q', '-' ~ 'M'): an unlisted TLD is accepted under the default mask",
          "MISSED at first (near-miss substitutions used lower-case letters, digits and the hyphen). C07: upper-case letters join the substitution alphabet at every position of every row. Corpus 'tld' (C08, C17, sinks, history search): every row with one character replaced by its arithmetic case partner (+-32, +-64, +-16) where that is a letter, digit or hyphen."),
'C09-k': ("is_special_domain: length of the label after 'example.' measured with an ISALNUM loop", "example.com-x classified special", "reported at once (dotted reserved extensions of round 10)."),
'C10-k': ("is_utf8_domain: converted labels matching xn---[a-z0-9] / xn----[a-z] refused as misplaced hyphen, mode 6531 only", "a label whose first ASCII character is a hyphen after non-ASCII characters (нью-йорк.рф): U- and A-spelling refused in 6531, accepted in the ASCII modes", "reported at once (contextual phase: hyphen between label symbols; cross-mode comparison of the A-label)."),
'C11-k': ("is_special_domain: strncasecmp(\"example.\", cp, len) without the len == 7 test", "e.com, ex.com ... exampl.com: rows com/net/org answer 'special' instead of their CSV class",
          "MISSED by C11 at first (C09 reported it). C11 looks every row up behind 28 front labels now: every proper prefix and suffix of 'example' and other reserved words among them."),
'C12-k': ("is_6531_email: new guard 'address longer than 320 octets, ASCII host name' returns EEAV_DOMAIN_TOO_LONG before the local part is scanned", "long address with an invalid local part: mode 6531 reports the domain, the other modes the local part", "reported at once (plain-ASCII cross-mode agreement on the long corpus)."),
'C13-k': ("init_idn (idn2): eav->idnmsg = NULL in the first-time / re-initialisation branch", "IDN error, then eav_setup to an ASCII mode and back to 6531: errcode still EEAV_IDN_ERROR, eav_errstr returns NULL",
          "MISSED at first (the search compared outcomes of eav_is_email and the message across eav_free only). New invariant in every reachable state of the history search, after every operation: eav_errstr returns a non-empty text."),
'C14-k': ("is_special_domain: root dot cut off with strtok_r whose context pointer is a function-scope static", "any two threads validating names with TLD checking on: unsynchronised stores (inside libc) to one static location; outcomes unchanged",
          "Reported at first only as 'nondeterministic replay' (the stored stack address differs between runs) - TSan cannot see a store made inside uninstrumented libc, the imports scan finds the re-entrant strtok_r harmless. New oracle in the scheduler harnesses: each thread body runs alone from the restored snapshot of the library's static memory; bytes written by two threads are a write-write race (the library has no synchronisation)."),
'C15-k': ("check_ip: an untagged literal goes to is_ipv6 when it has no '.', instead of when it has a ':'", "untagged IPv6 literal with a dotted-quad tail ([::ffff:192.0.2.128]): refused with 'ip-addr is incorrect' although is_ipv6 accepts the text",
          "MISSED by C15 at first (C01's composition oracle reported it; the reference answers ANY for untagged IPv6). C15's predicate for code 24 gained the composition clause of the statement: when the library's own is_ipv4 / is_ipv6 accepts the text between the brackets, no per-part validator failed and the diagnostic is untrue."),
'C16-k': ("is_ipv6: a dotted quad allowed behind seven ':' instead of six (field > 7)", "[IPv6:1:2:3:4:5:6::1.2.3.4]: nine groups accepted with is_ipv6 set", "reported at once (IPv6 shape grid x flag oracle)."),
'C17-k': ("RFC6531_FOLLOW_RFC20: the test for # ^ ` { | } ~ runs on a stack copy char lpart[64] clamped to 63 bytes", "RFC20 builds, mode 6531: a 64-octet local part whose LAST octet is one of the seven characters is accepted",
          "MISSED at first (no corpus placed a character at a given position of a local part of a given length). New corpus 'posn': local parts of 17 lengths around 1, 8, 16, 32, 64 (thorough: every length 1-66), every byte at every position - read by C17, C01, the sinks, C06 and the history search."),
'C18-k': ("partial/idnkit/eav.c init_idn: the result of idn_resconf_create is no longer assigned", "idnkit build, context creation fails: eav_setup returns 0, later calls destroy / use a context that was never created", "reported at once (setup with injected context failures in the lock-step search; context ledger)."),
'C19-k': ("is_utf8_domain (idn2): heap copy with lower-cased ACE prefixes, freed only inside if (domain != NULL)", "upper-case XN-- label and a failing conversion: the copy leaks", "reported at once (fault corpus sweep with the allocator ledger)."),
'C20-k': ("bin/main.c: the getline buffer and its size became file-scope statics, the free at the end of parse_file stayed", "two or more files on one command line: use after free / double free, verdicts lost",
          "MISSED at first (every run had one file). New phase: all ordered pairs over 14 files, all triples over 5, pairs around a path that cannot be opened, all 14 files in both orders - stdout must be the concatenation of the per-file expectations."),
}
if __name__ == '__main__':
    for k, (chg, needs, hist) in M.items():
        p = '/verif/seeded/%s/meta.json' % k
        d = json.load(open(p))
        d['change'] = chg; d['what_it_needs_to_manifest'] = needs; d['history'] = hist; d['round'] = 11
        json.dump(d, open(p, 'w'), indent=1)
    print('ok', len(M))
