#!/usr/bin/env python3
"""covaudit.py - vacuity audit of the E-INPUT enumerations: which lines of the library does the quick tier of the
input-space checks never execute?

The library of the working tree is compiled with gcc --coverage (-O0), every E-INPUT driver is linked against it and
run at the quick tier, and gcov lists the source lines with an execution count of 0.  A line no enumeration reaches
is a blind spot: a change there cannot be detected, whatever the oracle.  The audit is NOT a check of a property (it
exits 0 whatever it finds, unless a driver reports a violation); its output is findings/covaudit.txt, read by hand and
summarised in DESIGN.md.

usage: lib/covaudit.py [quick|thorough]
"""
import os, sys, subprocess, shutil, glob, re
sys.path.insert(0, os.path.dirname(os.path.abspath(__file__)))
import buildlib as BL

V = BL.V
DRIVERS = [  # (name, src, defs)
    ('C02', 'drv/local.c', []), ('C03', 'drv/local.c', ['-DC03']), ('C04', 'drv/c04.c', []), ('C05', 'drv/c05.c', []),
    ('C01', 'drv/c01.c', []), ('C07', 'drv/tld.c', []), ('C09', 'drv/tld.c', ['-DC09']), ('C08', 'drv/c08.c', []),
    ('C10', 'drv/c10.c', []), ('C12', 'drv/sinks.c', ['-DSINK=12']), ('C15', 'drv/sinks.c', ['-DSINK=15']),
    ('C16', 'drv/sinks.c', ['-DSINK=16']),
]

def main():
    tier = sys.argv[1] if len(sys.argv) > 1 else 'quick'
    bdir = os.path.join(V, 'build', 'covaudit-%d' % os.getpid())
    os.makedirs(bdir, exist_ok=True)
    BL.VARIANTS['gcov'] = ('gcc', ['-O0', '-g', '--coverage', '-fprofile-update=atomic'], 'idn2', [])
    rc_all = 0
    try:
        objs = BL.build_objects(bdir, 'gcov')
        for name, src, defs in DRIVERS:
            exe = BL.build_driver(bdir, src, 'gcov', defs + ['-DMC_GCOV'], objs=objs, out=os.path.join(bdir, 'drv-' + name))
            out = os.path.join(bdir, name + '.json')
            r = subprocess.run([exe, '--tier', tier, '--out', out, '--workers', '16', '--deadline', '600'],
                               stdout=subprocess.PIPE, stderr=subprocess.STDOUT, text=True, errors='replace')
            last = [l for l in r.stdout.splitlines() if l.strip()][-1:] or ['']
            print('%s rc=%d %s' % (name, r.returncode, last[0][:160])); sys.stdout.flush()
            if r.returncode != 0: rc_all = 1
        # gcov over the library objects
        odir = os.path.join(bdir, 'lib-gcov')
        report = []
        tot = hit = 0
        for gcno in sorted(glob.glob(os.path.join(odir, '*.gcno'))):
            r = subprocess.run(['gcov', '-b', '-c', '-o', odir, gcno], cwd=odir, stdout=subprocess.PIPE, stderr=subprocess.STDOUT, text=True)
        for g in sorted(glob.glob(os.path.join(odir, '*.gcov'))):
            lines = open(g, errors='replace').read().splitlines()
            srcname = ''
            for l in lines[:3]:
                m = re.match(r'\s*-:\s*0:Source:(.*)', l)
                if m: srcname = m.group(1)
            if '/src/' not in srcname and '/partial/' not in srcname: continue
            miss = []
            for l in lines:
                m = re.match(r'\s*([^:]+):\s*(\d+):(.*)', l)
                if not m: continue
                cnt, ln, text = m.group(1).strip(), int(m.group(2)), m.group(3)
                if ln == 0 or cnt == '-': continue
                tot += 1
                if cnt.startswith('#####') or cnt.startswith('====='):
                    miss.append((ln, text))
                else:
                    hit += 1
            rel = srcname[srcname.find('/src/') + 1:] if '/src/' in srcname else srcname[srcname.find('/partial/') + 1:]
            report.append('== %s: %d line(s) never executed' % (rel, len(miss)))
            for ln, text in miss:
                report.append('   %5d: %s' % (ln, text.rstrip()))
        head = 'covaudit tier=%s: %d of %d executable library lines executed by the E-INPUT enumerations (%.1f%%)' % (tier, hit, tot, 100.0 * hit / max(tot, 1))
        print(head)
        os.makedirs(os.path.join(V, 'findings'), exist_ok=True)
        with open(os.path.join(V, 'findings', 'covaudit.txt'), 'w') as f:
            f.write(head + '\n' + '\n'.join(report) + '\n')
        print('\n'.join(report))
    finally:
        shutil.rmtree(bdir, ignore_errors=True)
    return rc_all

if __name__ == '__main__':
    sys.exit(main())
