"""C11, generator part: run util/gentld.pl and util/gen_utf8_pass_test.pl on the shipped CSVs in a scratch
copy (perl -I stubs/perl supplies a Text::CSV stand-in) and compare their output with the shipped files.
The stand-in's parse of both CSVs is first cross-checked row by row against Python's csv module."""
import os, subprocess, shutil, csv, tempfile, time
import buildlib as BL
V = BL.V

def run(bdir, tier, known_ids, deadline):
    t0 = time.time(); R = BL.repo()
    res = {'counters': {}, 'phases': [], 'violations': [], 'classes': [], 'samples': [], 'extra': {}}
    def viol(why, msg, text=''):
        key = why + '|'
        for c in res['classes']:
            if c['key'] == key: c['count'] += 1; break
        else:
            res['classes'].append({'key': key, 'count': 1, 'is_known': 0})
            res['violations'].append({'sub': 'noreplay-generators', 'why': why, 'known': '', 'cfg': '', 'msg': msg, 'text': text, 'hex': text.encode().hex()})
    work = tempfile.mkdtemp(prefix='c11gen-', dir=os.environ.get('TMPDIR', '/tmp'))
    evals = 0
    try:
        for sub in ('util', 'data', 'src', 'include'):
            shutil.copytree(os.path.join(R, sub), os.path.join(work, sub))
        stub = os.path.join(V, 'stubs', 'perl')
        # 1. cross-check the stand-in against Python's csv
        dump = ("use Text::CSV; my $c=Text::CSV->new({binary=>1}); open(my $io,'<:utf8',$ARGV[0]) or die; binmode(STDOUT,':utf8');"
                "while(my $r=$c->getline($io)){print join(\"\\x1f\",@$r),\"\\x1e\";}")
        for name in ('punycode.csv', 'raw.csv'):
            p = os.path.join(work, 'data', name)
            out = subprocess.run(['perl', '-I' + stub, '-e', dump, p], stdout=subprocess.PIPE, stderr=subprocess.PIPE)
            if out.returncode != 0:
                viol('text-csv-standin-failed', out.stderr.decode(errors='replace')[-300:]); continue
            prow = [r.split('\x1f') for r in out.stdout.decode('utf-8').split('\x1e') if r != '']
            with open(p, newline='', encoding='utf-8') as f:
                pyrow = list(csv.reader(f))
            evals += len(pyrow)
            if prow != pyrow:
                n = min(len(prow), len(pyrow)); bad = next((i for i in range(n) if prow[i] != pyrow[i]), n)
                viol('text-csv-standin-disagrees-with-python-csv', '%s row %d: perl %r python %r' % (name, bad + 1, prow[bad:bad+1], pyrow[bad:bad+1]))
        res['counters']['csv_rows_cross_checked'] = evals
        # 2. run the generators exactly as the Makefile does (make auto / make tld-domains)
        gen = subprocess.run(['perl', '-I' + stub, 'util/gentld.pl', 'include/eav/auto_tld.h', 'src/auto_tld.c', 'data/punycode.csv'], cwd=work, stdout=subprocess.PIPE, stderr=subprocess.STDOUT, text=True)
        if gen.returncode != 0: viol('gentld.pl-failed', gen.stdout[-300:])
        gen2 = subprocess.run(['perl', '-I' + stub, 'util/gen_utf8_pass_test.pl', 'data/tld-domains.txt', 'data/raw.csv'], cwd=work, stdout=subprocess.PIPE, stderr=subprocess.STDOUT, text=True)
        if gen2.returncode != 0: viol('gen_utf8_pass_test.pl-failed', gen2.stdout[-300:])
        lines = 0
        for rel, skip_first in (('src/auto_tld.c', True), ('include/eav/auto_tld.h', False), ('data/tld-domains.txt', False)):
            a = open(os.path.join(R, rel), encoding='utf-8', errors='replace').read().split('\n')
            b = open(os.path.join(work, rel), encoding='utf-8', errors='replace').read().split('\n')
            if skip_first:
                if not (a and b and a[0].startswith('/* this file was auto-generated at') and b[0].startswith('/* this file was auto-generated at')):
                    viol('timestamp-line-shape', rel + ': first line is not the timestamp comment')
                a, b = a[1:], b[1:]
            lines += max(len(a), len(b))
            if a != b:
                n = min(len(a), len(b)); bad = next((i for i in range(n) if a[i] != b[i]), n)
                viol('regenerated-file-differs:' + rel, '%s line %d: shipped %r regenerated %r (shipped %d lines, regenerated %d)' % (
                    rel, bad + 1 + (1 if skip_first else 0), a[bad:bad+1], b[bad:bad+1], len(a), len(b)), rel)
        res['counters']['generated_lines_compared'] = lines
        res['counters']['evaluations'] = evals + lines
        res['counters']['distinct_nontrivial'] = lines
        res['counters']['generator_programs_run'] = 2
        res['samples'].append({'sub': 'generators', 'cfg': '', 'text': 'perl -Istubs/perl util/gentld.pl include/eav/auto_tld.h src/auto_tld.c data/punycode.csv', 'msg': 'output compared line by line with the shipped files'})
        res['phases'].append({'name': 'generators: Text::CSV stand-in cross-check, gentld.pl, gen_utf8_pass_test.pl, line-by-line diff', 'shards': 1, 'done': 1, 'complete': True, 'evaluations': evals + lines, 'wall_s': round(time.time() - t0, 2)})
    finally:
        shutil.rmtree(work, ignore_errors=True)
    return res
