"""C20: the eav command-line tool on generated files.  The real bin/*.c is compiled with ASan+UBSan and linked SHARED
against the ASan build of the library, exactly like bin/Makefile does (bin/utf8_decode.c defines the same symbol names
as src/utf8_decode.c and interposes them - a static link would hide that).  Files are all sequences of 0..k lines over a
menu of line shapes x terminators x final-newline; every file is run through the binary (spawned), stdout/stderr/exit
status captured, and compared with the library's own decision (plain build through ctypes) after the documented trimming."""
import os, subprocess, itertools, time, ctypes, tempfile, shutil, threading
from concurrent.futures import ThreadPoolExecutor
import buildlib as BL
V = BL.V

def build(bdir):
    R = BL.repo()
    objs = BL.build_objects(bdir, 'asan')
    so = os.path.join(bdir, 'libeav.so')
    cc, cflags = 'clang', BL.VARIANTS['asan'][1]
    rc, out = BL.sh([cc, '-shared', '-Wl,-soname,libeav.so', '-o', so] + cflags + objs + ['-lidn2'])
    if rc: raise RuntimeError('libeav.so (asan) link failed: ' + out)
    exe = os.path.join(bdir, 'eav')
    srcs = sorted(os.path.join(R, 'bin', f) for f in os.listdir(os.path.join(R, 'bin')) if f.endswith('.c'))
    cmd = [cc] + cflags + ['-std=gnu99', '-D_DEFAULT_SOURCE', '-D_XOPEN_SOURCE=700', '-D_SVID_SOURCE', '-D__EXTENSIONS__', '-DHAVE_LIBIDN2', '-I' + os.path.join(R, 'include'),
           '-o', exe] + srcs + ['-L' + bdir, '-leav', '-lidn2', '-Wl,-rpath,' + bdir]
    rc, out = BL.sh(cmd)
    if rc: raise RuntimeError('bin/eav build failed: ' + out)
    plain = BL.build_shared(bdir, 'plain', name='oracle')
    return exe, plain

class Oracle:
    def __init__(self, so):
        self.l = ctypes.CDLL(so)
        self.l.eav_errstr.restype = ctypes.c_char_p
        self.l.eav_is_email.argtypes = [ctypes.c_void_p, ctypes.c_char_p, ctypes.c_size_t]
        self.obj = ctypes.create_string_buffer(512)
        self.l.eav_init(self.obj)
        if self.l.eav_setup(self.obj) != 0: raise RuntimeError('eav_setup')
        self.cache = {}
        self.lock = threading.Lock()     # one eav_t: the object API is not meant to be shared between threads
    def decide(self, b):
        with self.lock:
            if b in self.cache: return self.cache[b]
            r = self.l.eav_is_email(self.obj, b, len(b))
            msg = self.l.eav_errstr(self.obj)
            self.cache[b] = (r, msg)
            return self.cache[b]

def _stack8m():
    import resource
    resource.setrlimit(resource.RLIMIT_STACK, (8 << 20, 8 << 20))

def rle_hex(data):
    """replay record of a huge file: 'rle:' + units 'hex*count' joined by ',' (a unit is 1-4 bytes repeated count times)"""
    out = []; i = 0; n = len(data)
    while i < n:
        best_u, best_c = 1, 1
        for u in (1, 2, 3, 4):
            unit = data[i:i + u]
            if len(unit) < u: break
            c = 1
            while data[i + c * u:i + (c + 1) * u] == unit: c += 1
            if c * u > best_c * best_u: best_u, best_c = u, c
        out.append('%s*%d' % (data[i:i + best_u].hex(), best_c)); i += best_u * best_c
        if len(out) > 20000: return ''
    return 'rle:' + ','.join(out)

def unrle(h):
    if not h.startswith('rle:'): return bytes.fromhex(h)
    return b''.join(bytes.fromhex(x.split('*')[0]) * int(x.split('*')[1]) for x in h[4:].split(','))

def _stack8m_lowfd():
    import resource
    _stack8m(); resource.setrlimit(resource.RLIMIT_NOFILE, (24, 24))

def clean_utf8(b):
    try: s = b.decode('utf-8')
    except UnicodeDecodeError: return False
    return all(ord(c) >= 0x20 and ord(c) != 0x7f for c in s)

def expected(data, orc):
    """list of (verdict 'PASS'/'FAIL', echo-or-None, msg-or-None) per non-comment line, None where unspecified (NUL in line)"""
    out = []
    if data == b'': return out
    lines = data.split(b'\n')
    if lines[-1] == b'': lines = lines[:-1]; last_nl = True
    else: last_nl = False
    for i, ln in enumerate(lines):
        had_nl = last_nl or i < len(lines) - 1
        if had_nl and ln.endswith(b'\r'): ln = ln[:-1]
        if b'\x00' in ln:
            vis = ln.split(b'\x00')[0]
            if vis[:1] == b'#': continue
            out.append(None); continue
        if ln[:1] == b'#': continue
        cp = ln[1:] if ln[:1] == b' ' else ln
        if cp[-1:] in (b' ', b'\t'): cp = cp[:-1]
        r, msg = orc.decide(cp)
        out.append(('PASS' if r else 'FAIL', cp if clean_utf8(cp) else None, None if r else msg))
    return out

def line_menu(thorough):
    L = [b'', b' ', b'  ', b'\t', b'#c', b' #c', b'simple@test.com', b'bad..dots@test.com', b' lead@test.com', b'trail@test.com ', b'trail@test.com\t',
         'ж@почта.рф'.encode(), b'a\xff@b.com', b'a\xd0', b'a\rb@c.com', b'a\x01b@c.com', b'x@[1.2.3.4]',
         b'\xef\xbb\xbfbom@test.com', b'\xef\xbb\xbf#bom@test.com', b'\xef\xbb\xbf bom@test.com', b'\xef\xbb\xbf']     # U+FEFF is an ordinary character for the library: nothing may be stripped
    longs = []
    for n in (1023, 1024, 2047, 2048, 2049, 8192):
        longs.append(b'a' * (n - 9) + b'@test.com')
        longs.append('ж'.encode() * ((n - 9) // 2) + (b'a' if (n - 9) % 2 else b'') + b'@test.com')
    longs.append(b'a' * 2046 + 'ж'.encode() + b'@t.co')      # multi-byte character straddling 2048
    if thorough: L += [b'"q r"@test.com', b'a@b', b'#', b'a\x7f@b.com', b'\xe2\x99\xa5@x.de', b'a@example.com', b' ', b'\t\t']
    return L, longs

def run(bdir, tier, known_ids, deadline, only_utf8=False):
    t0 = time.time(); thorough = tier == 'thorough'
    exe, plain = build(bdir)
    orc = Oracle(plain)
    res = {'counters': {}, 'phases': [], 'violations': [], 'classes': [], 'samples': [], 'extra': {}}
    cls = {}
    def viol(why, msg, data, nfiles=1):
        if nfiles > 1: why += ':several-files'
        c = cls.setdefault(why, {'key': why + '|', 'count': 0, 'is_known': 0}); c['count'] += 1
        if c['count'] <= 2:
            res['violations'].append({'sub': 'files' if nfiles > 1 else 'file', 'why': why, 'known': '', 'cfg': '', 'msg': msg[:190], 'text': repr(data[:120])[2:-1], 'hex': data.hex() if len(data) <= 400000 else rle_hex(data)})
    L, longs = line_menu(thorough)
    terms = [b'\n', b'\r\n']
    files = [b'', b'\x00\n', b'a\x00b@c.com\n', b'\n', b'\r\n', b'\r', b'#only comment', b'#\n#\n']
    k = 3 if thorough else 2
    for n in range(1, k + 1):
        pool = L if n < 3 else L[:12]
        for combo in itertools.product(range(len(pool)), repeat=n):
            for tsel in itertools.product(range(2), repeat=n) if n < 3 else [(0,) * n, (1,) * n, (0, 1, 0)]:
                body = b''.join(pool[c] + terms[t] for c, t in zip(combo, tsel))
                files.append(body)
                files.append(body[:-len(terms[tsel[-1]])])          # final newline absent
    for lg in longs:
        for t in terms:
            files += [lg + t, lg, b'ok@test.com' + t + lg + t + b'#c' + t, lg + t + lg + t]
    # every line length around each power of two (a reader that grows its buffer by doubling has its corner cases exactly there),
    # always followed by a second line that must get its own verdict
    for centre in (128, 256, 512, 1024, 2048, 4096):
        for n in range(centre - 6, centre + 7):
            for t in terms:
                for lead in (b'a', 'ж'.encode()):
                    body = (lead * ((n - 9) // len(lead)) + b'a' * ((n - 9) % len(lead)) + b'@test.com')
                    files.append(body + t + b'ok@test.com' + t)
                    files.append(body + t + b'#c' + t + b'bad..x@test.com')
    # many lines in one file (verdict order and count at scale: every menu line 300 times, terminators alternating), and lines of 64 KiB / 1 MiB
    files.append(b''.join(L[i % len(L)] + terms[(i // len(L)) % 2] for i in range(300 * len(L))))
    files.append(b''.join((b'#c%d' % i if i % 3 == 0 else b'u%d@test.com' % i if i % 3 == 1 else b'bad..%d@test.com' % i) + terms[i % 2] for i in range(6000)))
    for n in (65535, 65536, 65537, 1 << 20):
        for lead in (b'a', 'ж'.encode(), '中'.encode()):
            body = lead * ((n - 9) // len(lead)) + b'a' * ((n - 9) % len(lead)) + b'@test.com'
            files.append(body + b'\n' + b'ok@test.com\n'); files.append(b'ok@test.com\r\n' + body)
    # lines of several MiB, beyond anything a stack frame holds (the process runs with the usual 8 MiB stack limit, pinned below): an echo buffer
    # sized by the line - a C99 variable-length array, alloca() - has no failure path.  Control and invalid bytes are echoed as 4 bytes each.
    if not only_utf8:
        big = [b'\x01' * (3 << 20) + b'@test.com', b'a' * (12 << 20) + b'@test.com']
        if thorough: big += [b'\xff' * (3 << 20), 'ж'.encode() * (8 << 20) + b'@test.com', b'a' * (32 << 20) + b'@test.com']
        for body in big: files.append(b'ok@test.com\n' + body + b'\n' + b'ok@test.com\n')
    # a 2-, 3- or 4-byte character whose lead byte sits 0..w+1 bytes before each multiple of a power of two, on lines longer than that
    # (a tool that reads, sanitizes or prints in fixed-size pieces cuts a character there); the line must still be echoed byte for byte
    for B in (256, 512, 1024, 2048, 4096, 8192):
        for ch in ('ж'.encode(), '中'.encode(), '😀'.encode()):
            for d in range(0, len(ch) + 2):
                one_ = b'a' * (B - d) + ch + b'a' * 31 + b'@test.com'
                buf = bytearray(b'a' * (3 * B + 31))
                for kk in (1, 2, 3): buf[kk * B - d:kk * B - d + len(ch)] = ch
                many = bytes(buf) + b'@test.com'
                for body in (one_, many):
                    files.append(body + b'\n' + b'ok@test.com\n')
    # lines whose ESCAPED echo lands exactly on / next to a power of two: 1-3 control characters (each echoed as 4 bytes) in lines of every length
    # within 12 of 128..4096 (an echo buffer that grows by doubling has its corner exactly there)
    for centre in (128, 256, 512, 1024, 2048, 4096):
        for n in range(centre - 12, centre + 3):
            for nctl in (1, 2, 3):
                for ctl in (b'\r', b'\x01'):
                    body = bytearray(b'a' * (n - 9) + b'@test.com')
                    for k in range(nctl): body[5 + 7 * k:5 + 7 * k + 1] = ctl
                    files.append(bytes(body) + b'\n' + b'ok@test.com\n')
    # UTF-8 strictness through the tool (bin/utf8_decode.c interposes the library's decoder when linked shared): every 2-byte
    # sequence with a non-ASCII lead, boundary 3- and 4-byte sequences, as bare and quoted local parts - thousands of lines per file
    def utf8_file(seqs, fmt):
        return b''.join(fmt % q + b'\n' for q in seqs if b'\n' not in q and b'\x00' not in q)
    two = [bytes([a, b]) for a in range(0xc0, 0x100) for b in list(range(0x80, 0x100)) + [0x41, 0x7f, 0x22]]
    three = [bytes([a, b, c]) for a in (0xe0, 0xe1, 0xec, 0xed, 0xee, 0xef) for b in (0x7f, 0x80, 0x9f, 0xa0, 0xb0, 0xbf, 0xc0) for c in (0x7f, 0x80, 0xbf, 0xc0)]
    four = [bytes([a, b, c, d]) for a in (0xf0, 0xf1, 0xf3, 0xf4, 0xf5, 0xf8) for b in (0x7f, 0x80, 0x8f, 0x90, 0xbf, 0xc0) for c in (0x80, 0xbf, 0x41) for d in (0x80, 0xbf, 0x41)]
    for seqs in (two, three, four):
        files.append(utf8_file(seqs, b'a%sb@test.com')); files.append(utf8_file(seqs, b'"%s"@test.com')); files.append(utf8_file(seqs, b'x@%s.com'))
    if only_utf8:
        # C03 through the shipped tool (which links its own copy of the decoder in front of the library's): only the UTF-8 strictness files, plus
        # every lead byte x every second byte, and the edges of every range of Table 3-7 with all third / fourth bytes
        nfix = 9
        files = files[-nfix:]
        lead2 = [bytes([a, b]) + bytes(c) for a in range(0x80, 0x100) for b in range(0x01, 0x100) if b not in (0x0a, 0x0d) for c in ([0x80], [0x80, 0x80], [])]
        edges = [bytes([a, b, c, d]) for (a, bs) in ((0xe0, (0x9f, 0xa0)), (0xed, (0x9f, 0xa0)), (0xef, (0xbf,)), (0xf0, (0x8f, 0x90)), (0xf4, (0x8f, 0x90)), (0xf1, (0x80, 0xbf)), (0xf5, (0x80,)))
                 for b in bs for c in range(0x7f, 0xc1) for d in (0x7f, 0x80, 0xbf, 0xc0)]
        for seqs in (lead2, edges):
            for k in range(0, len(seqs), 4000):
                files.append(utf8_file(seqs[k:k + 4000], b'a%sb@test.com')); files.append(utf8_file(seqs[k:k + 4000], b'"%s"@test.com'))
    seen = set(); uniq = []
    for f in files:
        if f not in seen: seen.add(f); uniq.append(f)
    files = uniq
    work = tempfile.mkdtemp(prefix='c20-', dir=os.path.join(bdir))
    env = dict(os.environ); env['ASAN_OPTIONS'] = 'detect_leaks=1:exitcode=77:abort_on_error=0'; env['UBSAN_OPTIONS'] = 'halt_on_error=1'; env['LC_ALL'] = 'C.UTF-8'
    nonempty = 0; done = [0]; incomplete = [False]
    # several files on one command line (usage: eav FILE [FILE2 ...]): the getline buffer, the static output buffer and the decoder
    # cursor live across files, so a file is also an event in a history.  All ordered pairs over a menu of 14 files, all triples over 5,
    # and every pair with a path that cannot be opened in between (a warning on stderr, nothing on stdout, the other files still processed).
    MISSING = None; LOWFD = set()
    if not only_utf8:
        M = [b'', b'#c\n', b'ok@test.com\n', b'bad..x@test.com\n', b'ok@test.com', b'a\xff@b.com\r\n', b'\n', b' lead@test.com \n#c\nx@[1.2.3.4]\n',
             longs[4] + b'\n', longs[-2] + b'\n' + b'ok@test.com\n', b'a\x01b@c.com\n' * 3, 'ж@почта.рф\n'.encode(), b'a' * 120 + b'@test.com\n', b'a\x00b@c.com\nok@test.com\n']
        for a in M:
            for b in M: files.append((a, b))
        for a in M[:5]:
            for b in M[:5]:
                for c in M[:5]: files.append((a, b, c))
        for a in M[:8]:
            for b in M[:8]: files.append((a, MISSING, b)); 
        files.append(tuple(M)); files.append(tuple(reversed(M)))
        # more files on one command line than the process may hold open at once: run with the open-file limit lowered to 24 (an environment input like
        # the stack limit), 60 small files - a tool that closes each file when done never notices, one that keeps them open runs out after ~20
        many = tuple((b'u%d@test.com\n' % i) + (b'bad..%d@test.com\n' % i if i % 2 else b'') for i in range(60))
        files.append(many); LOWFD.add(many)
    def one(idx):
        if time.time() - t0 > deadline: incomplete[0] = True; return
        datas = files[idx] if isinstance(files[idx], tuple) else (files[idx],)
        paths = []
        for n, d in enumerate(datas):
            path = os.path.join(work, 'f%d_%d' % (idx, n)); paths.append(path)
            if d is not None:
                with open(path, 'wb') as f: f.write(d)
        data = b'\x1e'.join(b'\x1f' if d is None else d for d in datas) if len(datas) > 1 else datas[0]      # replay record: RS between files, US = path that does not exist
        def cleanup():
            for q in paths:
                if os.path.exists(q): os.unlink(q)
        try:
            p = subprocess.run([exe] + paths, env=env, stdout=subprocess.PIPE, stderr=subprocess.PIPE, timeout=180 if sum(len(d) for d in datas if d) > (2 << 20) else 60, preexec_fn=_stack8m_lowfd if files[idx] in LOWFD else _stack8m)
        except subprocess.TimeoutExpired:
            viol('cli:timeout', 'no termination within the time limit (60 s; 180 s for files over 2 MiB)', data, len(datas)); cleanup(); return
        cleanup()
        done[0] += 1
        if p.returncode != 0:
            err = p.stderr.decode(errors='replace')
            kind = 'assertion-failure' if 'Assertion' in err else 'sanitizer:' + (err.split('ERROR: ')[1].split(' on ')[0][:50] if 'ERROR: ' in err else 'exit-%d' % p.returncode)
            viol('cli:' + kind, 'exit status %d: %s' % (p.returncode, ' '.join(err.split())[:150]), data, len(datas)); return
        present = [d for d in datas if d is not None]
        orders = [list(reversed(present))] + ([present] if len(present) > 1 else [])      # the tool walks argv from the last file to the first; either order is accepted
        problems = []
        for order in orders:
            exp = []
            for d in order: exp += expected(d, orc)
            pr = judge(exp, p.stdout)
            if pr is None: return
            problems.append(pr)
        viol(problems[0][0], problems[0][1], data, len(datas))
    def judge(exp, stdout):
        outl = stdout.split(b'\n')
        if outl and outl[-1] == b'': outl = outl[:-1]
        i = 0
        for j, e in enumerate(exp):
            if i >= len(outl): return ('cli:missing-verdict', 'non-comment line %d has no verdict (stdout has %d lines)' % (j + 1, len(outl)))
            head = outl[i][:6]
            if head not in (b'PASS: ', b'FAIL: '): return ('cli:malformed-output', 'stdout line %d does not start with a verdict: %r' % (i + 1, outl[i][:60]))
            got = head[:4].decode()
            if e is not None:
                if got != e[0]: return ('cli:verdict-differs-from-library', 'line %d: tool says %s, eav_is_email (default settings) says %s for %r' % (j + 1, got, e[0], e[1]))
                if e[1] is not None and outl[i][6:] != e[1]: return ('cli:clean-line-not-echoed-verbatim', 'line %d: echoed %r, expected %r' % (j + 1, outl[i][6:66], e[1][:60]))
            i += 1
            if got == 'FAIL':
                if i >= len(outl) or not outl[i].startswith(b'      '): return ('cli:fail-without-message', 'line %d: FAIL not followed by the error message' % (j + 1))
                if e is not None and e[2] is not None and outl[i][6:] != e[2]: return ('cli:message-differs-from-library', 'line %d: message %r, library says %r' % (j + 1, outl[i][6:], e[2]))
                i += 1
        if i != len(outl): return ('cli:extra-output', '%d output lines beyond the %d expected verdicts' % (len(outl) - i, len(exp)))
        return None
    with ThreadPoolExecutor(16) as ex:
        list(ex.map(one, range(len(files))))
    shutil.rmtree(work, ignore_errors=True)
    res['classes'] = list(cls.values())
    nt = sum(1 for f in files if isinstance(f, tuple) or (f.count(b'\n') >= 1 and len(f) > 2))
    res['counters'] = {'evaluations': done[0], 'distinct_nontrivial': nt, 'files_run_through_the_tool': done[0], 'library_decisions_by_oracle': len(orc.cache)}
    res['samples'] = [{'sub': 'file', 'cfg': '', 'text': repr(files[i][:80])[2:-1], 'msg': 'file run through bin/eav'} for i in range(8, min(len(files), 4000), max(1, len(files) // 8)) if not isinstance(files[i], tuple)][:8]
    res['phases'].append({'name': 'all sequences of <=%d lines over %d shapes x LF/CRLF x final newline; long lines 1023..8192' % (k, len(L)), 'shards': len(files), 'done': done[0], 'complete': not incomplete[0], 'evaluations': done[0], 'wall_s': round(time.time() - t0, 2)})
    nmulti = sum(1 for f in files if isinstance(f, tuple))
    if nmulti: res['phases'].append({'name': 'several files on one command line: ordered pairs over 14 files, triples over 5, pairs around a path that cannot be opened, all 14 in both orders', 'shards': nmulti, 'done': nmulti, 'complete': not incomplete[0], 'evaluations': nmulti, 'wall_s': 0})
    if incomplete[0]: res['deadline_hit'] = 1
    return res

def replay(bdir, path):
    import checks
    c = checks.read_case(path)
    data = unrle(c.get('hex', ''))
    exe, plain = build(bdir)
    fs = []
    for n, d in enumerate(data.split(b'\x1e') if c.get('sub') == 'files' else [data]):
        f = os.path.join(bdir, 'replay-input%d' % n); fs.append(f)
        if d != b'\x1f': open(f, 'wb').write(d)
        elif os.path.exists(f): os.unlink(f)
    env = dict(os.environ); env['ASAN_OPTIONS'] = 'detect_leaks=1:exitcode=77'
    p = subprocess.run([exe] + fs, env=env, preexec_fn=_stack8m_lowfd if len(fs) > 24 else _stack8m)
    print('exit status', p.returncode)
    return 1 if p.returncode != 0 else 0


def run_utf8(bdir, tier, known_ids, deadline):
    return run(bdir, tier, known_ids, deadline, only_utf8=True)
