#!/usr/bin/env python3
"""Round 5 of the seeded changes: what each change is, what it needs to manifest, and what happened when the checks first met it.
Writes the fields change / what_it_needs_to_manifest / history / round into seeded/<name>/meta.json (idempotent)."""
import json
M = {
'C01-e': ("basic_email_check: local-part length stored in an unsigned short before the 64-octet check", "a local part of 65536+d characters (d <= 64): the truncated length passes the limit; every length up to 65535 behaves as before",
          "MISSED at first (length ladders stopped at 4 KiB). C01 now has a 'huge' phase: five oversized-part shapes at every length k*2^8+d and k*2^16+d (d = 0..70, 250..258; thorough adds 2^24, 2^31, 2^32 + d), as views into one copy-on-write buffer, expected verdict by construction."),
'C02-e': ("is_5322_local: neighbour test of a quoted white-space character rewritten with isspace(), which also takes VT and FF", "mode 5322, unescaped SP/HT/CR/LF in a quoted string next to a 0x0B or 0x0C byte", "reported at once (L2: every byte in every reference state)."),
'C03-e': ("is_6531_local: closing-quote MISPLACED_QUOTE returned without inverse() (+9 instead of -9)", "mode 6531, text after a closing quote, allow_tld containing EAV_TLD_RETIRED: eav_is_email reads +9 as a TLD class and accepts",
          "MISSED at first (decisions compared as zero / non-zero, default mask). check_local now observes a positive refusal code through eav_is_email with tld_check on and every class allowed."),
'C04-e': ("is_ascii_domain: new 'at most 127 labels' guard tests >= after the increment", "a name of exactly 127 one-character labels (253 characters)",
          "MISSED at first (the total-length sweep ended its one-character filler with a two-character label: 126 labels). New L3count phase: n = 1..140 equal labels of k = 1..63 characters, rooted or not, last label one longer."),
'C05-e': ("is_ipv6: hex group checked by value (<= 0xffff) instead of width (<= 4)", "a zero-led group of five or more hex digits, e.g. [IPv6:::00001]",
          "MISSED at first (group widths were built from non-zero digits). The v6 generator now has 27 group spellings at every index: zero-led, all-zero, over-wide, very long, upper case, non-hex. Also added: 14 tails after the end pointer for is_ipv4/is_ipv6/is_ipaddr, and three local-part shapes in front of every literal."),
'C06-e': ("is_utf8_domain: reads domain[len-1] before the empty-name check", "mode 6531, a domain made only of code points that IDNA maps to nothing (x@U+00AD): the converted name is empty, domain[-1] is read",
          "MISSED at first. New corpus phase 'wholedom': every code point of U+0080-2FFF, U+FE00-FFFF, U+1BCA0-1BCAF, U+E0000-E01FF (thorough: every scalar) as the whole domain, doubled, as both labels, rooted, as last label - through every entry point under ASan and the guard pages."),
'C07-e': ("auto_tld.c: one extra row 'stuttgart' that the shipped CSV files do not have", "last label 'stuttgart' in any mode",
          "MISSED by C07 at first (C11 reported it: table longer than the CSV). C07 now also walks the library's own tld_list: every row, lower and upper case, as a last label, expected class taken from the CSV."),
'C08-e': ("is_5322_local: closing-quote error returned without inverse() (+9 = TLD_TYPE_RETIRED)", "mode 5322, text after a closing quote, mask with bit 10 set; also with tld_check off",
          "MISSED at first (C08 only ran valid addresses and four fixed invalid ones through the 2048 masks). New 'veto' phase: the local / e-mail / domain / literal / lpxdom / maxlit / labellen corpora under 14 masks (0, all, default, each single bit) x tld on/off x 4 modes with three oracles: mask is irrelevant with tld_check off; accepted under some mask => accepted with tld_check off; reference REJECT => refused under every mask."),
'C09-e': ("is_utf8_domain (3 back ends): is_special_domain skipped when the converted name starts with xn--", "mode 6531, first label an IDN label, reserved suffix", "reported at once (mapped spellings with a Cyrillic first label)."),
'C10-e': ("is_utf8_domain: pre-validation pass whose non-character test is (cp & 0xFFE) == 0xFFE", "U-label containing a code point whose low 12 bits are 0xFFE/0xFFF (U+4FFE, U+5FFF, U+AFFE ...)",
          "MISSED at first. New 'scalars' phase in C10: every Unicode scalar value as a label of its own and after a letter, U-label verdict against the independent conversion and the A-label spelling. (This sweep exposed a false alarm in the harness: code points that IDNA maps to '@' or '[' - corrected, see DESIGN 13.4.)"),
'C11-e': ("check_tld macro: quick reject of last labels with a digit or hyphen unless they start with lower-case 'xn--'", "ASCII modes, an xn-- row spelled with upper-case X or N",
          "MISSED by C11 at first (C07 reported it: upper-case row spellings through the validators). C11's row walk now also sends every row, in 5 case variants, through the four address validators with TLD check on."),
'C12-e': ("is_utf8_domain (idn2): tld_check == false guard moved after the is_special_domain test", "mode 6531, tld_check off, reserved domain: rc 8 where the ASCII modes give 0", "reported at once (pure-ASCII cross-mode comparison, tld off)."),
'C13-e': ("global flag eav_tld_lowered set by is_utf8_domain, cleared by is_tld only after its early return for an empty label", "mode 6531 validates a rooted name, then an ASCII mode looks up a TLD that is not all lower case - on another object, or on the same one after a mode switch",
          "MISSED at first (the BFS pool has no rooted and no upper-case-TLD address; the pair sweep stays in one mode). New 'xpairs' phase: every ordered pair of 150 feature addresses (26 domains x as-is/upper/rooted/both + local-part and degenerate shapes) x every ordered pair of the 8 (mode, tld_check) configurations, on two objects and on one object with a mode switch, against the outcome in a fresh library state. The pair replays now re-run the pair itself."),
'C14-e': ("is_tld: lazily built per-letter index in file-scope memory, 'built' flag is the first slot written", "cold start: a second thread looks up while the first is still building", "reported at once (E-SCHED: outcome differs from the sequential run; the statics are restored before every execution, so every execution is a cold start)."),
'C15-e': ("is_6531_local: prev set from utf8_decode_at_character (character index) instead of the byte index", "mode 6531, two non-ASCII characters each followed by a dot at the right distance: 'too many dots' without '..'", "reported at once (C15 predicate for code 11 over the local corpus)."),
'C16-e': ("check_ip: family flag decided by memchr(email, ':', length) over the whole address", "accepted IPv4 literal with a colon inside a quoted local part: is_ipv6 set",
          "MISSED at first (all literal corpora used the local part 'x'). New corpus phase 'lpxdom': 40 local-part shapes holding what the domain parsers look for (colon, dots, brackets, '@', digits, the IPv6 tag) x 36 domain parts; C05 also rotates three local parts in front of every literal."),
'C17-e': ("is_6531_local under RFC6531_FOLLOW_RFC5322: 'non-ASCII may follow quoted white space' rewritten as lead-byte tests without the 4-byte pattern", "option build, mode 6531, quoted white space followed by a character beyond U+FFFF",
          "MISSED at first (the zone is DC-3: not pinned by the statement). New oracle that needs no pin: in every build the local-part verdict of mode 6531 may not depend on WHICH well-formed non-ASCII characters are used (replace each by U+0416). Corpora: a 4-byte character joined the local alphabet, the local corpus is also enumerated inside a quoted string, the scalars corpus places every code point after and before a quoted space."),
'C18-e': ("idnkit back end: is_special_domain block moved above the tld_check == false return", "idnkit build, mode 6531, tld_check off, reserved domain", "reported at once (lock-step BFS and the three-backend corpus)."),
'C19-e': ("eav_is_email (idn2): returns early when tld_check is off, before idnmsg is set", "IDN failure with tld_check off: rejected with IDN_ERROR but eav_errstr is NULL",
          "MISSED at first (the fault oracle compared with a fresh object, which has the same defect, and asserted code / flags / idn_rc only). Now asserts the message: non-empty, and for libidn2 equal to idn2_strerror(code)."),
'C20-e': ("CLI: lines sanitized and printed in pieces of 4096 bytes, the cut steps back one byte only", "a line longer than 4096 bytes with a 3- or 4-byte character whose lead byte is at offset 4093/4094",
          "MISSED at first. New file family: a 2-, 3- and 4-byte character whose lead byte sits 0..w+1 bytes before each multiple of 256..8192, alone and at three multiples at once, followed by a second line."),
}
if __name__ == '__main__':
    for k, (chg, needs, hist) in M.items():
        p = '/verif/seeded/%s/meta.json' % k
        d = json.load(open(p))
        d['change'] = chg; d['what_it_needs_to_manifest'] = needs; d['history'] = hist; d['round'] = 5
        json.dump(d, open(p, 'w'), indent=1)
    print('ok', len(M))
