#!/usr/bin/env python3
"""Round 7 of the seeded changes (see seedmeta_r5.py).  C08-g was rejected (seeded/_rejected/README.md)."""
import json
M = {
'C01-g': ("check_ip: new bound of 46 characters (INET6_ADDRSTRLEN) on the bracket contents, tag included", "IPv6:-tagged literal of 47-50 characters (six 4-digit groups + long dotted quad)", "reported at once (maximal-length literal corpus)."),
'C02-g': ("is_5321_local: closing-quote error returned without inverse() (+9)", "mode 5321, text after a closing quote, read through eav_is_email with EAV_TLD_RETIRED allowed", "reported at once (positive refusal codes are followed through a permissive policy since round 5)."),
'C03-g': ("bin/utf8_decode.c (the tool's own decoder, which pre-empts the library's symbols in bin/eav): upper limit 0x110000 instead of 0x10FFFF", "F4 90 80 80 in a local part, validated through bin/eav",
          "MISSED by C03 at first (C20 reported it: its UTF-8 strictness files contain the sequence). C03 got a step that runs the tool: C20's UTF-8 files plus every lead x second byte and all range edges of Table 3-7 - mode 6531 as a user of the shipped tool gets it."),
'C04-g': ("is_ascii_domain: all-numeric test only for names of at most 4 labels", "a name of five or more all-numeric labels: 1.2.3.4.5 accepted",
          "MISSED at first in the quick tier (9 tokens). New L3numeric phase: 1..12 numeric labels in 5 digit spellings, rooted or not, and the same with one non-numeric label at every position."),
'C05-g': ("is_ipv4: misplaced-dot test nested under the zero-first-octet branch", "zero first octet followed by extra dots: [0..0.0.0], also as IPv6 tail",
          "MISSED at first in the quick tier (8 tokens). The v4 generator now places one or two extra dots at every position of every 4-tuple over {0, 1, 10, 255}, plain and as IPv6 tail."),
'C06-g': ("is_utf8_domain: [start,end) copied into a variable-length array on the stack before the conversion", "mode 6531, host-name domain of about 8 MiB or more: stack overflow",
          "MISSED at first (the sanitizer corpora stop at 64 KiB; C01's oversized domains go through mode 6531 up to 1 MiB only). C06 got a 'huge' phase: four shapes of 12 MiB (thorough: 1, 8, 12, 64 MiB) through every entry point under ASan and against the guard pages."),
'C07-g': ("is_tld: strncmp fast path when a helper sees no capitals; the helper stops at the first non-letter", "ASCII modes, xn-- row with lower-case prefix and a capital later: xn--P1AI", "reported at once (row spellings with the last character in upper case)."),
'C09-g': ("is_special_domain: reserved[] length of 'onion' 6 -> 5 (prefix match)", "last label 'onion' + 2 or 4 characters", "reported at once (reserved names extended by 1-3 characters)."),
'C10-g': ("is_utf8_domain (idn2): reserved-name test on the raw input instead of the converted name", "mode 6531, reserved suffix visible only after IDNA mapping (U+3002, fullwidth letters)", "reported at once (IDNA-mapped spellings; same family as C09-d)."),
'C11-g': ("gen_utf8_pass_test.pl: title line skipped by a regex without '$' (also skips the row 'domains'); tld-domains.txt regenerated", "the row 'domains' is missing from the list the test suite iterates over", "reported at once (tld-domains.txt compared line by line with the CSV, independently of the generator)."),
'C12-g': ("check_tld macro: reserved-name lookup skipped when the domain contains 'xn--'", "ASCII modes, typed A-label in front of a reserved suffix: rc differs from mode 6531", "reported at once (label-depth corpus through the cross-mode comparison)."),
'C13-g': ("eav_is_email (idn2): GENERIC_RESTRICTED arm does 'allow_tld &= bit' instead of '&'", "a .biz/.name/.pro address narrows the caller's mask for all later calls on the object",
          "MISSED at first (no generic-restricted address anywhere as a predecessor). The class representatives joined the 150-address feature pool, and every validation in the history search and the pair products is now framed by a settings invariant: rfc, allow_tld and tld_check as the object holds them are the same before and after eav_is_email."),
'C14-g': ("is_tld: exact strncmp first, then a lower-case copy in a function-scope static buffer when the name has capitals", "two threads looking up TLDs written with capitals in the ASCII modes",
          "reported at once by the free-running ThreadSanitizer pass; the controlled scheduler did not see it (no harness looked up a label with capitals), so harness H14 was added - now both report it."),
'C15-g': ("is_special_domain: 'onion' row length 6 -> 5", "tld_check on, last label onion + 2/4 characters: 'special TLD' reported for a non-reserved name", "reported at once (predicate for code 34)."),
'C16-g': ("partial/idn/is_6531_email.c: EAV_EXTRA block guarded by rc == EEAV_NO_ERROR instead of rc >= 0", "libidn build with -DEAV_EXTRA, mode 6531, tld_check on, classified host name: lpart/domain NULL on acceptance",
          "MISSED at first (EAV_EXTRA was only built on the idn2 back end). C16 runs its EAV_EXTRA step on the idn and idnkit builds too."),
'C17-g': ("is_6531_local under RFC6531_FOLLOW_RFC5322: look-behind of the white-space rule uses isspace() (takes VT and FF)", "option build, quoted VT/FF followed by white space and text",
          "MISSED at first (the option builds were only compared on corpora whose control characters are 0x01 and 0x7f). C17 now runs C03's automaton product (every byte in every reference state, W-method suite, token strings) on the RFC5322, RFC20 and RFC5322+RFC20 builds against the reference WITH the option."),
'C18-g': ("partial/idnkit/is_utf8_domain.c: reserved-name test on the raw input", "idnkit build, reserved suffix visible only after IDNA mapping", "reported at once (three-backend corpus: altdot)."),
'C19-g': ("is_utf8_domain (idn2): new pre-step copies the domain without U+200B/U+2060/U+FEFF; the copy is freed after the error check", "failing conversion of a domain that contains one of the three code points: the copy leaks",
          "MISSED at first (faults were injected into four pool addresses). New fault corpus sweep: every address of seven corpora (IDN products, every default-ignorable code point as a whole domain, alternative dots, long U-labels, local x domain shapes, label depth, byte sweeps) x tld on/off x three environment answers, ledger checked after the call and after eav_free."),
'C20-g': ("CLI: a leading EF BB BF is removed from the first line of each file", "file starting with a byte order mark",
          "MISSED at first in the quick tier (the BOM line was in the thorough menu only). Four BOM line shapes are in the quick menu; files of 300 x menu lines and 6000 numbered lines, and lines of 64 KiB and 1 MiB, were added as well."),
}
if __name__ == '__main__':
    for k, (chg, needs, hist) in M.items():
        p = '/verif/seeded/%s/meta.json' % k
        d = json.load(open(p))
        d['change'] = chg; d['what_it_needs_to_manifest'] = needs; d['history'] = hist; d['round'] = 7
        json.dump(d, open(p, 'w'), indent=1)
    print('ok', len(M))
