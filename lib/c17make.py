"""C17, Makefile part: the three make variables default to OFF and map to exactly their -D flag."""
import os, subprocess, shutil, tempfile, time, itertools
import buildlib as BL
NAMES = ['RFC6531_FOLLOW_RFC5322', 'RFC6531_FOLLOW_RFC20', 'LABELS_ALLOW_UNDERSCORE']
def run(bdir, tier, known_ids, deadline):
    t0 = time.time(); R = BL.repo()
    res = {'counters': {}, 'phases': [], 'violations': [], 'classes': [], 'samples': [], 'extra': {}}
    def viol(why, msg):
        res['classes'].append({'key': why + '|', 'count': 1, 'is_known': 0})
        res['violations'].append({'sub': 'noreplay-makefile', 'why': why, 'known': '', 'cfg': '', 'msg': msg[:190], 'text': '', 'hex': ''})
    work = tempfile.mkdtemp(prefix='c17make-', dir=os.environ.get('TMPDIR', '/tmp'))
    n = 0
    try:
        dst = os.path.join(work, 'r'); subprocess.run(['rsync', '-a', '--exclude', '.git', R + '/', dst + '/'], check=True)
        combos = [None] + list(itertools.product(['OFF', 'ON'], repeat=3))
        for combo in combos:
            args = [] if combo is None else ['%s=%s' % (k, v) for k, v in zip(NAMES, combo)]
            p = subprocess.run(['make', '-n', '-B', 'shared'] + args, cwd=dst, stdout=subprocess.PIPE, stderr=subprocess.STDOUT, text=True)
            lines = [l for l in p.stdout.splitlines() if ' -c ' in l and ('src/' in l or 'partial/' in l)]
            if p.returncode != 0 or not lines:
                viol('make-n-failed', 'make -n %s: exit %d' % (' '.join(args), p.returncode)); continue
            for i, name in enumerate(NAMES):
                want = combo is not None and combo[i] == 'ON'
                have = [('-D' + name) in l.split() for l in lines]
                n += 1
                if want and not all(have): viol('option-not-passed-to-every-compile', '%s: -D%s missing on %d of %d compile lines' % (' '.join(args), name, have.count(False), len(have)))
                if not want and any(have): viol('option-on-although-not-requested', '%s: -D%s present' % (' '.join(args) or '(defaults)', name))
        res['samples'].append({'sub': 'makefile', 'cfg': '', 'text': 'make -n -B shared ' + ' '.join('%s=ON' % k for k in NAMES), 'msg': 'compile lines inspected for the three -D flags'})
    finally:
        shutil.rmtree(work, ignore_errors=True)
    res['counters'] = {'evaluations': n, 'distinct_nontrivial': n, 'makefile_flag_checks': n}
    res['phases'].append({'name': 'make -n for the default and the 8 explicit combinations', 'shards': 1, 'done': 1, 'complete': True, 'evaluations': n, 'wall_s': round(time.time() - t0, 2)})
    return res
