#!/usr/bin/env python3
"""Round 8 of the seeded changes (see seedmeta_r5.py)."""
import json
M = {
'C01-h': ("check_ip: strncasecmp for the IPv6: tag replaced by a helper that folds case with c | 0x20 on every byte", "a control byte that folds to a tag character: [IPv\\x16:2001:db8::1] accepted",
          "MISSED by C01 at first (C05's byte sweep over literal contents reported it). C01 got a substitution phase: every byte value at every position of 12 complete addresses (the older templates only insert)."),
'C02-h': ("the three ASCII scanners: word-at-a-time pre-scan for bytes >= 0x80 resumes at ALIGN_UP(cp + 8) instead of ALIGN_UP(cp + 1)", "local part of 17+ bytes that does not start on an 8-byte boundary, 8-bit byte at offset 8..15-r",
          "MISSED at first (every harness buffer starts aligned). New 'align' phase in C02/C03: atom and quoted strings of 1..48 characters with one deviating byte at every position, at each of the 16 start offsets of an aligned buffer."),
'C03-h': ("bin/utf8_decode.c: fourth byte of a 4-byte character read with get() instead of cont()", "through bin/eav: valid lead + second + third byte followed by a non-continuation byte", "reported at once (the tool-decoder step added in round 7: range edges x all third bytes x boundary fourth bytes)."),
'C04-h': ("is_ascii_domain: '_' moved into its own branch (LABELS_ALLOW_UNDERSCORE) without the label-length test", "UNDERSCORE build, label of 64+ characters ending in '_'",
          "MISSED by C04 at first (C17's underscore oracle reported it). C04 got a second step: all its generators on the LABELS_ALLOW_UNDERSCORE build against the reference with '_' as a letter."),
'C05-h': ("check_ip: tag compared with strncasecmp(..., \"IPv6\", length of the candidate)", "a proper prefix of the tag: [IP:2001:db8::1], [I:...], [IPv:...]", "reported at once (token strings over {IPv6: ...} do not contain it, the raw odometer 'IP:6:1::...' shape does)."),
'C06-h': ("is_special_domain: writes a NUL over the root dot in the CALLER's string and restores it", "ASCII modes or direct call, tld_check on, rooted domain: a store into the const input",
          "MISSED at first (inputs were writable). The guard-page step now hands the input over read-only (mprotect) for the whole-address calls and the domain validators."),
'C07-h': ("partial/idnkit/is_utf8_domain.c: strrchr('.') became strchr('.') for the TLD look-up", "idnkit build, mode 6531, domain of three or more labels",
          "MISSED by C07 at first (C18's lock-step comparison reported it). C07 runs its generators on the idn and idnkit builds too (mode 6531 only there)."),
'C08-h': ("is_special_domain: example.{com,net,org} matched with memcmp (case-sensitive)", "ASCII modes, Example.com with a capital, mask where GENERIC and SPECIAL differ", "reported at once (Host.EXAMPLE.Org under all 2048 masks)."),
'C09-h': ("is_special_domain: label boundaries found by a helper that stops at any non-alphanumeric character", "hyphen directly before a reserved word inside a label: my-example.com, a-test", "reported at once (reserved names behind prefixes of every length incl. hyphenated ones)."),
'C10-h': ("is_utf8_domain: pre-scan refuses every U+200C/U+200D before calling the converter", "ZWJ/ZWNJ in a context where IDNA2008 allows it (after a virama, between joining Arabic letters)",
          "MISSED at first (no virama in any alphabet). New 'contextual' phase: the seven CONTEXTJ/CONTEXTO code points between every ordered pair of 34 neighbours (letters of the scripts concerned, viramas of six scripts, digits) in three shapes, plus all pairs of Arabic-Indic / extended digits."),
'C11-h': ("is_special_domain: example.<tld> compared over the length of the reserved entry (prefix match)", "second-level label 'example' in front of a row that starts with com/net/org: example.comcast",
          "MISSED by C11 at first (its row walk used the front label 'a' only). Every row is now looked up behind six front labels (a, example, test, com, xn--p1ai, the row itself)."),
'C12-h': ("is_utf8_domain (idn2): len shortened for a rooted name without re-terminating the string", "mode 6531, rooted reserved name: special in the ASCII modes, invalid TLD in 6531", "reported at once (cross-mode comparison on x@example.com.)."),
'C13-h': ("is_special_domain: braces of 'if (tld_len == 3)' dropped, the compare runs on an unwritten stack buffer", "ASCII mode, example.<TLD not 3 letters> after an earlier example.com/net/org in the same thread",
          "MISSED at first. The feature pool got example.info / example.co / mail.example.museum / example.nosuchtld (the pair product reports the history dependence), and C06 got a MemorySanitizer step for the ASCII modes and ASCII part validators, which reports the uninitialised read itself whatever ran before."),
'C14-h': ("is_ipv4: the 0.0.0.0 test copies [start,end) into a function-scope static buffer grown with realloc", "two threads validating literals whose dotted quad starts with a zero octet",
          "MISSED at first (no harness used such a literal). Harness H15 added: reported by the TSan pass (race in memcpy/strspn) and by the controlled scheduler (the heap block behind the static pointer survives the snapshot restore: replay of the same schedule diverges)."),
'C15-h': ("is_ipv6: early NO when the text is longer than 39 characters", "valid IPv6 literal with a dotted-quad tail of 40-45 characters: 'ip-addr is incorrect'", "reported at once (maximal-length literals)."),
'C16-h': ("all six copies: EAV_EXTRA domain copied with strndup(brs, DOMAIN_SIZE)", "EAV_EXTRA build, mode 6531, accepted host name of more than 1024 UTF-8 bytes (soft-hyphen padding)", "reported at once (soft-hyphen padded domains, byte comparison of the domain field)."),
'C17-h': ("is_6531_local under RFC6531_FOLLOW_RFC5322: a 'peeked' marker set by the look-ahead survives the closing quote", "option build, two quoted words: \"a \".\"b c\" (10 tokens)",
          "MISSED at first: one hidden bit doubles the scanner's state space, beyond what the W-method suite with m = 2 extra states guarantees, and the token strings stopped at 6. New 'L1small' phase in C02/C03 and C17's option-build steps: all strings of <= 10 (12) tokens over the six structure classes."),
'C18-h': ("partial/idnkit/eav.c: default mask of eav_init lacks EAV_TLD_INFRASTRUCTURE", "idnkit build, mask left as eav_init set it, .arpa address", "reported at once (pair products and corpus on three back ends use the init mask)."),
'C19-h': ("is_utf8_domain (idn2): *r written only on failure", "direct is_utf8_domain calls sharing one idn-code variable: a success after a failure still reports the failure",
          "MISSED at first (the object API allocates a fresh record per call). New phase: the per-part entry point with one shared variable - every code x buffer x tld_check, then six follow-up names, compared with a fresh variable; success must reset the code."),
'C20-h': ("CLI: exit status 3 when errno is non-zero after the read loop", "a line whose domain is invalid UTF-8 (libidn2 leaves EILSEQ in errno)", "reported at once (non-zero exit status on menu files with invalid UTF-8)."),
}
if __name__ == '__main__':
    for k, (chg, needs, hist) in M.items():
        p = '/verif/seeded/%s/meta.json' % k
        d = json.load(open(p))
        d['change'] = chg; d['what_it_needs_to_manifest'] = needs; d['history'] = hist; d['round'] = 8
        json.dump(d, open(p, 'w'), indent=1)
    print('ok', len(M))
