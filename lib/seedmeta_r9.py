#!/usr/bin/env python3
"""Round 9 of the seeded changes (see seedmeta_r5.py).  C15-i was rejected (seeded/_rejected/README.md)."""
import json
M = {
'C01-i': ("check_ip: tagged and untagged IPv6 branches merged; the IPv6: tag is only skipped", "[IPv6:192.0.2.1]: tagged dotted quad accepted", "reported at once (same hole as C16-f; bracket-content strings and lpxdom contain it)."),
'C02-i': ("basic_email_check: 'fail fast' when the local part does not start with a quote and contains another '@'", "quoted '@' in a word that is not the first: a.\"@\"@example.com refused in the ASCII modes", "reported at once (local-part token strings run through eav_is_email with '@' among the quoted characters)."),
'C03-i': ("is_6531_email (idn2): all-ASCII local parts shortcut to is_5321_local; the ASCII pre-scan stops at the first '@'", "mode 6531, quoted '@' with only ASCII before it and a non-ASCII character after it: \"a@é\" refused", "reported at once (local-part strings through eav_is_email)."),
'C04-i': ("is_ascii_domain: labels of the form 0x<hex> count as numeric", "host names made of decimal and 0x-hex labels: 0x7f.0.0.1 refused as all-numeric", "reported at once (token strings over {a Z 1 - . ...}: 0X1)."),
'C05-i': ("check_ip: untagged IPv6 and IPv4 branches merged into is_ipaddr(); family flag chosen by '.'", "untagged IPv6 literal with a dotted-quad tail reported as IPv4", "reported at once (family oracle over the v6 shape grid, untagged tags included)."),
'C06-i': ("is_special_domain: new home.arpa block (copy of the example.* block) without the terminating NUL after memcpy", "second-to-last label 'home', last label of 4 bytes: strncasecmp reads an uninitialised stack byte",
          "MISSED at first (no corpus contains 'home.arpa'; the MemorySanitizer step needs the path to be executed). New corpus 'embed': every string compiled into the library objects (strings(1) over the build) as last label, second-level label, rooted, upper case, and every ordered pair of them as the last two labels - a name the library treats specially has to be spelled in its read-only data."),
'C07-i': ("is_special_domain: example.<tld> compared over the first three characters of the last label", "example.comcast / example.community / example.comx classified special", "reported at once (rows behind the front label 'example')."),
'C08-i': ("is_special_domain: second-level test became len >= 7 && strncasecmp(\"example\", cp, 7)", "second-level label that starts with 'example': examples.com, example1.org", "reported at once (depth corpus: examples.com under the veto class oracle)."),
'C09-i': ("is_special_domain: reserved[] gains the row 'internal'", "last label 'internal'", "MISSED at first (an arbitrary new name is in no generator). The 'embed' corpus (see C06-i) takes its names from the library's own read-only data; C07 and C09 read it."),
'C10-i': ("is_utf8_domain: pre-check for '--' at BYTE offsets 2 and 3 of a U-label", "label that starts with one 2-byte character followed by '--': я--б.рф", "reported at once (negative families / two-symbol labels with hyphens)."),
'C11-i': ("gen_utf8_pass_test.pl opens its output in append mode", "re-running the generator onto the shipped tld-domains.txt doubles it", "reported at once (the generator step re-runs the scripts the way the Makefile does and compares line by line)."),
'C12-i': ("is_special_domain: the rooted branch of the last-label test uses strncmp (case-sensitive)", "ASCII modes, rooted reserved name with a capital: host.TEST. - mode 6531 sees lower case from the converter",
          "MISSED at first (rooted and upper-case variants existed separately). The depth corpus now emits upper-case, rooted and upper-case + rooted variants of every suffix, bare and behind one label."),
'C13-i': ("is_ipv4: octets parsed with strtol(), range test via errno == ERANGE without clearing errno first", "any valid IPv4 literal after a literal with an octet beyond LONG_MAX in the same thread (stale errno)",
          "MISSED at first. errno is now a controlled environment input of the history search and the pair products: fresh outcomes are computed with errno = 0, second calls run with ERANGE / EILSEQ / EINVAL left in errno, and octets beyond LONG_MAX are in the feature pool. (The first version of this extension produced a non-reproducing violation because the 'fresh' table itself was computed under a stale errno - corrected before it was committed.)"),
'C14-i': ("partial/idnkit/is_utf8_domain.c: 'char domain[DOMAIN_SIZE]' became static", "idnkit build, two threads converting different domains",
          "MISSED at first (scheduler and TSan ran on the idn2 build only). The free-running ThreadSanitizer pass now also runs on the idn and idnkit builds, on thread-safe stand-ins for their IDN library (sched/idnstub_mt.c)."),
'C16-i': ("is_utf8_domain (idn2): reserved-name test on the raw input (as C10-g)", "mode 6531, reserved name that only appears after IDNA mapping: class 3 or -26 instead of 8",
          "MISSED by C16 at first (it checked the shape of the record, not the value of the class). C16 now requires rc to be the class the shipped data give the (converted) name whenever both halves are valid and TLD checking is on."),
'C17-i': ("is_6531_local under RFC6531_FOLLOW_RFC5322: look-ahead guard also stops at '@'", "option build, quoted isolated blank directly followed by '@'", "reported at once (automaton product on the option build: every byte in every state)."),
'C18-i': ("partial/idnkit/eav.c: resolver context destroyed before the mode switch, also for invalid mode values", "idnkit: setup 6531, rejected setup with an invalid rfc, then a validation: destroyed context handed to the converter", "reported at once (context ledger: use of a dead context)."),
'C19-i': ("is_utf8_domain (idn2): on IDN2_TOO_BIG_DOMAIN for a 254-byte rooted name the conversion is retried without the dot", "that one code on that one shape: accepted although the converter failed, first output buffer leaked",
          "MISSED at first (codes were crossed with four pool addresses and two codes with the corpora). New fault-lengths product: every code x buffer x tld_check on names of 35 lengths (1..262 characters), rooted or not."),
'C20-i': ("sanitize_utf8: length thresholds rewritten, 'c < 0xffff' instead of '<='", "a line containing U+FFFF followed by more text: the next byte is echoed twice", "reported at once (UTF-8 boundary files: EF BF BF followed by text)."),
}
if __name__ == '__main__':
    for k, (chg, needs, hist) in M.items():
        p = '/verif/seeded/%s/meta.json' % k
        d = json.load(open(p))
        d['change'] = chg; d['what_it_needs_to_manifest'] = needs; d['history'] = hist; d['round'] = 9
        json.dump(d, open(p, 'w'), indent=1)
    print('ok', len(M))
