#!/bin/bash
# usage: lib/seedauto.sh <name> <property> <worktree> [extra check IDs]  - takes the demo command from the "RUN:" line of _seed/demo.*
wt=$3; f=$(ls $wt/_seed/demo.c $wt/_seed/demo.sh 2>/dev/null | head -1)
cmd=$(grep -h -m1 "RUN:" $wt/_seed/demo.* 2>/dev/null | sed 's/.*RUN:[ ]*//; s/\*\/.*$//')
[ -z "$cmd" ] && { echo "no RUN: line in $f"; exit 2; }
name=$1; prop=$2; shift 3
echo "demo command: $cmd"
/verif/lib/seedcheck.sh "$name" "$prop" "$wt/_seed" "$cmd" "$@"
