/* mc.h - core of the bounded-exhaustive explorers (header-only).
 *
 * - fork-based sharding with dynamic shard hand-out (one atomic counter)
 * - per-worker "current case" slot in shared memory, so a worker that dies
 *   (signal, sanitizer abort, assert) leaves the input it was executing
 * - bounded violation store with classification (sub-check, known-finding id)
 * - phases: a phase is one completely enumerated bound; a phase interrupted by
 *   the global deadline is reported incomplete and never counted as covered
 * - JSON result file for the ./run wrapper (evidence, replay files, findings)
 *
 * Nothing here is random; VERIF_SEED is recorded by the wrapper only.
 */
#ifndef MC_H
#define MC_H
#define _GNU_SOURCE
#include <stdint.h>
#include <stdio.h>
#include <locale.h>
#include <stdlib.h>
#include <string.h>
#include <stdarg.h>
#include <unistd.h>
#include <errno.h>
#include <signal.h>
#include <time.h>
#include <sys/mman.h>
#include <sys/wait.h>

#define MC_MAXW      64
#define MC_MAXVIOL   200
#define MC_MAXCLASS  160
#define MC_PERCLASS  3
#define MC_MAXCTR    96
#define MC_MAXSAMPLE 24
#define MC_MAXPHASE  64
#define MC_CASEMAX   4096

typedef struct {
    char sub[40];        /* sub-check (layer) name */
    char why[72];        /* automatic root-cause class of a violation */
    char known[40];      /* known-finding class ("" = none) */
    char cfg[96];        /* free-form configuration (mode=.. tld=..) */
    char msg[200];       /* expected/observed */
    int  len;
    unsigned char in[MC_CASEMAX];
} mc_case_t;

typedef struct {
    char key[120];
    uint64_t count;
    int stored;
    int is_known;        /* class is an enabled known finding */
} mc_class_t;

typedef struct {
    char name[64];
    long shards;
    long done;
    int complete;
    uint64_t evals;
    double wall;
} mc_phase_t;

typedef struct {
    /* current case of each worker */
    struct { int active; mc_case_t cur; } w[MC_MAXW];
    volatile int lock;
    int nviol;
    mc_case_t viol[MC_MAXVIOL];
    int nclass;
    mc_class_t cls[MC_MAXCLASS];
    uint64_t ctr[MC_MAXCTR];
    volatile long next_shard;
    volatile long shards_done;
    int nsample;
    mc_case_t sample[MC_MAXSAMPLE];
    volatile int deadline_hit;
    int crashed;
    int sample_quota;
} mc_shared_t;

static mc_shared_t *mc_sh;
static char mc_ctrname[MC_MAXCTR][48];
static int mc_nctr;
static mc_phase_t mc_phase[MC_MAXPHASE];
static int mc_nphase;
static int mc_wid = -1;           /* -1 = parent */
static int mc_workers = 16;
static double mc_t0, mc_deadline = 1e18;
static const char *mc_out = NULL;
static const char *mc_tier = "quick";
static int mc_thorough = 0;
static char mc_knownlist[1024] = ",";
static const char *mc_replay = NULL;
static const char *mc_driver = "?";
static uint64_t mc_local_ctr[MC_MAXCTR]; /* worker-local, flushed at shard end */

static double mc_now(void) {
    struct timespec ts; clock_gettime(CLOCK_MONOTONIC, &ts);
    return ts.tv_sec + ts.tv_nsec * 1e-9;
}
static void mc_lock(void)   { while (__atomic_exchange_n(&mc_sh->lock, 1, __ATOMIC_ACQUIRE)) usleep(50); }
static void mc_unlock(void) { __atomic_store_n(&mc_sh->lock, 0, __ATOMIC_RELEASE); }

/* counters: registered before any fork, addressed by index */
static int mc_counter(const char *name) {
    for (int i = 0; i < mc_nctr; i++) if (!strcmp(mc_ctrname[i], name)) return i;
    if (mc_nctr >= MC_MAXCTR) { fprintf(stderr, "mc: too many counters\n"); exit(2); }
    snprintf(mc_ctrname[mc_nctr], sizeof mc_ctrname[0], "%s", name);
    return mc_nctr++;
}
#define MC_ADD(idx, n) (mc_local_ctr[idx] += (uint64_t)(n))
static void mc_flush(void) {
    for (int i = 0; i < mc_nctr; i++) if (mc_local_ctr[i]) {
        __atomic_fetch_add(&mc_sh->ctr[i], mc_local_ctr[i], __ATOMIC_RELAXED);
        mc_local_ctr[i] = 0;
    }
}
static uint64_t mc_get(int idx) { return mc_sh->ctr[idx] + mc_local_ctr[idx]; }

static int C_EVAL, C_NONTRIV;

static int mc_known_enabled(const char *id) {
    char k[64]; snprintf(k, sizeof k, ",%s,", id);
    return strstr(mc_knownlist, k) != NULL;
}

static void mc_init(int argc, char **argv, const char *driver) {
    /* the process locale is an environment input: MC_LOCALE makes the driver call setlocale() the way an application (bin/eav does) would */
    { const char *loc = getenv("MC_LOCALE"); if (loc && loc[0]) { if (!setlocale(LC_ALL, loc)) { fprintf(stderr, "harness error: setlocale(LC_ALL, \"%s\") failed\n", loc); exit(2); } } }
    mc_driver = driver;
    mc_t0 = mc_now();
    for (int i = 1; i < argc; i++) {
        if (!strcmp(argv[i], "--tier") && i + 1 < argc) mc_tier = argv[++i];
        else if (!strcmp(argv[i], "--out") && i + 1 < argc) mc_out = argv[++i];
        else if (!strcmp(argv[i], "--workers") && i + 1 < argc) mc_workers = atoi(argv[++i]);
        else if (!strcmp(argv[i], "--deadline") && i + 1 < argc) mc_deadline = mc_t0 + atof(argv[++i]);
        else if (!strcmp(argv[i], "--known") && i + 1 < argc) snprintf(mc_knownlist, sizeof mc_knownlist, ",%s,", argv[++i]);
        else if (!strcmp(argv[i], "--replay") && i + 1 < argc) mc_replay = argv[++i];
    }
    mc_thorough = !strcmp(mc_tier, "thorough");
    if (mc_workers < 1) mc_workers = 1;
    if (mc_workers > MC_MAXW) mc_workers = MC_MAXW;
    mc_sh = mmap(NULL, sizeof *mc_sh, PROT_READ | PROT_WRITE, MAP_SHARED | MAP_ANONYMOUS, -1, 0);
    if (mc_sh == MAP_FAILED) { perror("mmap"); exit(2); }
    memset(mc_sh, 0, sizeof *mc_sh);
    C_EVAL = mc_counter("evaluations");
    C_NONTRIV = mc_counter("distinct_nontrivial");
}

static void mc_fill(mc_case_t *c, const char *sub, const char *why, const char *known, const char *cfg,
                    const void *in, size_t len, const char *msg) {
    memset(c, 0, sizeof *c - sizeof c->in);
    snprintf(c->sub, sizeof c->sub, "%s", sub ? sub : "");
    snprintf(c->why, sizeof c->why, "%s", why ? why : "");
    snprintf(c->known, sizeof c->known, "%s", known ? known : "");
    snprintf(c->cfg, sizeof c->cfg, "%s", cfg ? cfg : "");
    snprintf(c->msg, sizeof c->msg, "%s", msg ? msg : "");
    if (len > MC_CASEMAX) len = MC_CASEMAX;   /* long inputs: cfg carries the generator parameters */
    c->len = (int)len;
    if (len) memcpy(c->in, in, len);
}

/* record the case being executed (cheap: only pointer-sized fields + memcpy) */
static void mc_sample(const char *sub, const char *cfg, const void *in, size_t len, const char *msg);
static uint64_t mc_cur_count;
static inline void mc_current(const char *sub, const char *cfg, const void *in, size_t len) {
    /* automatic samples: the 8^k-th case of each worker (spread over the enumeration order) */
    mc_cur_count++;
    if ((mc_cur_count & (mc_cur_count - 1)) == 0 && (mc_cur_count & 0x9249249249249249ull) && mc_cur_count >= 8 && mc_sh->nsample < mc_sh->sample_quota)
        mc_sample(sub, cfg, in, len, "case executed");
    if (mc_wid < 0) return;
    mc_case_t *c = &mc_sh->w[mc_wid].cur;
    size_t n = len > MC_CASEMAX ? MC_CASEMAX : len;
    c->len = (int)n; memcpy(c->in, in, n);
    strncpy(c->sub, sub, sizeof c->sub - 1);
    strncpy(c->cfg, cfg ? cfg : "", sizeof c->cfg - 1);
    mc_sh->w[mc_wid].active = 1;
}

static int mc_replay_hit;  /* set by mc_violation in replay mode */

static void mc_violation(const char *sub, const char *why, const char *known, const char *cfg,
                         const void *in, size_t len, const char *fmt, ...) {
    char msg[200]; va_list ap; va_start(ap, fmt); vsnprintf(msg, sizeof msg, fmt, ap); va_end(ap);
    mc_replay_hit++;
    char key[120];
    int isk = known && known[0] && mc_known_enabled(known);
    if (!why || !why[0]) why = sub;
    snprintf(key, sizeof key, "%s|%s", why, (known && known[0]) ? known : "");
    mc_lock();
    int ci = -1;
    for (int i = 0; i < mc_sh->nclass; i++) if (!strcmp(mc_sh->cls[i].key, key)) { ci = i; break; }
    if (ci < 0 && mc_sh->nclass < MC_MAXCLASS) {
        ci = mc_sh->nclass++;
        snprintf(mc_sh->cls[ci].key, sizeof mc_sh->cls[ci].key, "%s", key);
        mc_sh->cls[ci].is_known = isk;
    }
    if (ci >= 0) {
        mc_sh->cls[ci].count++;
        if (mc_sh->cls[ci].stored < MC_PERCLASS && mc_sh->nviol < MC_MAXVIOL) {
            mc_sh->cls[ci].stored++;
            mc_fill(&mc_sh->viol[mc_sh->nviol++], sub, why, known, cfg, in, len, msg);
        }
    }
    mc_unlock();
}

static void mc_sample(const char *sub, const char *cfg, const void *in, size_t len, const char *msg) {
    if (mc_sh->nsample >= MC_MAXSAMPLE) return;
    mc_lock();
    if (mc_sh->nsample < MC_MAXSAMPLE) mc_fill(&mc_sh->sample[mc_sh->nsample++], sub, "", "", cfg, in, len, msg);
    mc_unlock();
}

static int mc_deadline_hit(void) {
    if (mc_sh->deadline_hit) return 1;
    if (mc_now() > mc_deadline) { mc_sh->deadline_hit = 1; return 1; }
    return 0;
}

/* Run fn(shard) for shard in [0,nshards) on mc_workers forked workers.
 * Returns 1 when every shard completed (phase complete). */
typedef void (*mc_shard_fn)(long shard, void *arg);
static int mc_parallel(const char *phase, long nshards, mc_shard_fn fn, void *arg) {
    if (mc_nphase >= MC_MAXPHASE) { fprintf(stderr, "mc: too many phases\n"); exit(2); }
    mc_phase_t *ph = &mc_phase[mc_nphase++];
    memset(ph, 0, sizeof *ph);
    snprintf(ph->name, sizeof ph->name, "%s", phase);
    ph->shards = nshards;
    double t0 = mc_now();
    uint64_t ev0 = mc_sh->ctr[C_EVAL];
    if (mc_deadline_hit()) { ph->complete = 0; return 0; }
    mc_sh->next_shard = 0; mc_sh->shards_done = 0;
    mc_sh->sample_quota = mc_sh->nsample + 4; if (mc_sh->sample_quota > MC_MAXSAMPLE) mc_sh->sample_quota = MC_MAXSAMPLE;
    int nw = mc_workers; if (nw > nshards) nw = (int)nshards; if (nw < 1) nw = 1;
    pid_t pids[MC_MAXW];
    fflush(stdout); fflush(stderr);
    for (int w = 0; w < nw; w++) {
        mc_sh->w[w].active = 0;
        pid_t p = fork();
        if (p < 0) { perror("fork"); exit(2); }
        if (p == 0) {
            mc_wid = w;
            for (;;) {
                if (mc_deadline_hit()) break;
                long s = __atomic_fetch_add(&mc_sh->next_shard, 1, __ATOMIC_RELAXED);
                if (s >= nshards) break;
                fn(s, arg);
                mc_flush();
                __atomic_fetch_add(&mc_sh->shards_done, 1, __ATOMIC_RELAXED);
            }
            mc_sh->w[w].active = 0;
            fflush(stdout); fflush(stderr);
#ifdef MC_GCOV
            { extern void __gcov_dump(void); __gcov_dump(); }   /* lib/covaudit.py: workers leave through _exit, flush the line counters first */
#endif
            _exit(0);
        }
        pids[w] = p;
    }
    for (int w = 0; w < nw; w++) {
        int st = 0;
        while (waitpid(pids[w], &st, 0) < 0 && errno == EINTR) ;
        if (!(WIFEXITED(st) && WEXITSTATUS(st) == 0)) {
            /* the worker died: its current case is the witness */
            mc_case_t *c = &mc_sh->w[w].cur;
            char m[200];
            if (WIFSIGNALED(st)) snprintf(m, sizeof m, "worker killed by signal %d while executing this case", WTERMSIG(st));
            else snprintf(m, sizeof m, "worker exited with status %d while executing this case (sanitizer/assert/abort)", WEXITSTATUS(st));
            mc_sh->crashed++;
            char sub[40]; snprintf(sub, sizeof sub, "crash:%.30s", c->sub);
            mc_violation(sub, sub, "", c->cfg, c->in, (size_t)c->len, "%s", m);
            mc_replay_hit = 0;
        }
    }
    ph->done = mc_sh->shards_done;
    ph->complete = (ph->done == nshards) && !mc_sh->crashed;
    ph->evals = mc_sh->ctr[C_EVAL] - ev0;
    ph->wall = mc_now() - t0;
    return ph->complete;
}

/* ---- JSON output ---- */
static void mc_jstr(FILE *f, const char *s) {
    fputc('"', f);
    for (; *s; s++) {
        unsigned char c = (unsigned char)*s;
        if (c == '"' || c == '\\') { fputc('\\', f); fputc(c, f); }
        else if (c < 0x20 || c >= 0x7f) fprintf(f, "\\u%04x", c);
        else fputc(c, f);
    }
    fputc('"', f);
}
static void mc_jbytes(FILE *f, const unsigned char *b, int n) {   /* C-style printable rendering, JSON-escaped */
    fputc('"', f);
    for (int i = 0; i < n; i++) {
        unsigned char c = b[i];
        if (c == '"') fputs("\\\\\\\"", f);            /* \" */
        else if (c == '\\') fputs("\\\\\\\\", f);     /* \\ */
        else if (c < 0x20 || c >= 0x7f) fprintf(f, "\\\\x%02x", c);
        else fputc(c, f);
    }
    fputc('"', f);
}
static void mc_jcase(FILE *f, const mc_case_t *c) {
    fprintf(f, "{\"sub\":"); mc_jstr(f, c->sub);
    fprintf(f, ",\"why\":"); mc_jstr(f, c->why);
    fprintf(f, ",\"known\":"); mc_jstr(f, c->known);
    fprintf(f, ",\"cfg\":"); mc_jstr(f, c->cfg);
    fprintf(f, ",\"msg\":"); mc_jstr(f, c->msg);
    fprintf(f, ",\"len\":%d,\"hex\":\"", c->len);
    for (int i = 0; i < c->len; i++) fprintf(f, "%02x", c->in[i]);
    fprintf(f, "\",\"text\":"); mc_jbytes(f, c->in, c->len > 160 ? 160 : c->len);
    fprintf(f, "}");
}

/* extra key/values a driver wants in the result (already JSON) */
static char mc_extra[16384];
static void mc_extra_add(const char *fmt, ...) {
    size_t l = strlen(mc_extra);
    va_list ap; va_start(ap, fmt);
    vsnprintf(mc_extra + l, sizeof mc_extra - l, fmt, ap);
    va_end(ap);
}

static int mc_finish(void) {
    mc_flush();
    FILE *f = mc_out ? fopen(mc_out, "w") : stdout;
    if (!f) { perror(mc_out); return 2; }
    int allc = 1;
    for (int i = 0; i < mc_nphase; i++) if (!mc_phase[i].complete) allc = 0;
    fprintf(f, "{\"driver\":"); mc_jstr(f, mc_driver);
    fprintf(f, ",\"tier\":"); mc_jstr(f, mc_tier);
    fprintf(f, ",\"wall_s\":%.3f,\"workers\":%d,\"deadline_hit\":%d,\"crashed\":%d,\"all_phases_complete\":%d",
            mc_now() - mc_t0, mc_workers, mc_sh->deadline_hit, mc_sh->crashed, allc);
    fprintf(f, ",\n\"counters\":{");
    for (int i = 0; i < mc_nctr; i++) { if (i) fputc(',', f); mc_jstr(f, mc_ctrname[i]); fprintf(f, ":%llu", (unsigned long long)mc_sh->ctr[i]); }
    fprintf(f, "},\n\"phases\":[");
    for (int i = 0; i < mc_nphase; i++) {
        if (i) fputc(',', f);
        fprintf(f, "{\"name\":"); mc_jstr(f, mc_phase[i].name);
        fprintf(f, ",\"shards\":%ld,\"done\":%ld,\"complete\":%s,\"evaluations\":%llu,\"wall_s\":%.3f}",
                mc_phase[i].shards, mc_phase[i].done, mc_phase[i].complete ? "true" : "false",
                (unsigned long long)mc_phase[i].evals, mc_phase[i].wall);
    }
    fprintf(f, "],\n\"classes\":[");
    for (int i = 0; i < mc_sh->nclass; i++) {
        if (i) fputc(',', f);
        fprintf(f, "{\"key\":"); mc_jstr(f, mc_sh->cls[i].key);
        fprintf(f, ",\"count\":%llu,\"is_known\":%d}", (unsigned long long)mc_sh->cls[i].count, mc_sh->cls[i].is_known);
    }
    fprintf(f, "],\n\"violations\":[");
    for (int i = 0; i < mc_sh->nviol; i++) { if (i) fprintf(f, ",\n"); mc_jcase(f, &mc_sh->viol[i]); }
    fprintf(f, "],\n\"samples\":[");
    for (int i = 0; i < mc_sh->nsample; i++) { if (i) fprintf(f, ",\n"); mc_jcase(f, &mc_sh->sample[i]); }
    fprintf(f, "]");
    if (mc_extra[0]) fprintf(f, ",\n\"extra\":{%s}", mc_extra);
    fprintf(f, "}\n");
    if (f != stdout) fclose(f);
    int unk = 0;
    for (int i = 0; i < mc_sh->nclass; i++) if (!mc_sh->cls[i].is_known) unk = 1;
    return unk ? 1 : 0;
}

/* ---- replay file: key=value lines: sub, cfg, hex ---- */
typedef struct { char sub[40]; char cfg[96]; int len; unsigned char in[MC_CASEMAX]; } mc_replay_t;
static int mc_load_replay(const char *path, mc_replay_t *r) {
    FILE *f = fopen(path, "r"); if (!f) { perror(path); return -1; }
    static char line[2 * MC_CASEMAX + 64];
    memset(r, 0, sizeof *r);
    while (fgets(line, sizeof line, f)) {
        size_t l = strlen(line); while (l && (line[l-1] == '\n' || line[l-1] == '\r')) line[--l] = 0;
        if (!strncmp(line, "sub=", 4)) snprintf(r->sub, sizeof r->sub, "%s", line + 4);
        else if (!strncmp(line, "cfg=", 4)) snprintf(r->cfg, sizeof r->cfg, "%s", line + 4);
        else if (!strncmp(line, "hex=", 4)) {
            const char *h = line + 4; int n = 0;
            while (h[0] && h[1] && n < MC_CASEMAX) { unsigned v; sscanf(h, "%2x", &v); r->in[n++] = (unsigned char)v; h += 2; }
            r->len = n;
        }
    }
    fclose(f);
    return 0;
}
/* cfg helpers: "mode=5321 tld=1 ..." */
static long mc_cfg_int(const char *cfg, const char *key, long dflt) {
    char k[40]; snprintf(k, sizeof k, "%s=", key);
    const char *p = cfg;
    while ((p = strstr(p, k)) != NULL) {
        if (p == cfg || p[-1] == ' ') return strtol(p + strlen(k), NULL, 10);
        p++;
    }
    return dflt;
}

/* ---- token-alphabet DFS enumerator ------------------------------------
 * Enumerates every string over an alphabet of byte tokens with 0..N tokens.
 * Shard s < |A|^k fixes the first k tokens and enumerates all extensions;
 * shard |A|^k enumerates the strings shorter than k tokens.                */
typedef struct { const unsigned char *b; int n; } mc_tok_t;
typedef void (*mc_str_fn)(const unsigned char *s, size_t len, int ntok, void *arg);
typedef struct {
    const mc_tok_t *A; int nA; int N; int k;
    mc_str_fn fn; void *arg;
    unsigned char buf[512];
} mc_enum_t;

static void mc_enum_rec(mc_enum_t *e, size_t len, int depth) {
    e->buf[len] = 0;
    e->fn(e->buf, len, depth, e->arg);
    if (depth >= e->N) return;
    for (int i = 0; i < e->nA; i++) {
        memcpy(e->buf + len, e->A[i].b, (size_t)e->A[i].n);
        mc_enum_rec(e, len + (size_t)e->A[i].n, depth + 1);
    }
}
static long mc_ipow(long b, int e) { long r = 1; while (e-- > 0) r *= b; return r; }
static long mc_enum_shards(const mc_enum_t *e) { return mc_ipow(e->nA, e->k) + 1; }
static void mc_enum_shard(mc_enum_t *e, long shard) {
    long full = mc_ipow(e->nA, e->k);
    if (shard == full) {           /* the short strings */
        int saveN = e->N; e->N = e->k - 1 < saveN ? e->k - 1 : saveN;
        if (e->N >= 0) mc_enum_rec(e, 0, 0);
        e->N = saveN;
        return;
    }
    if (e->N < e->k) return;
    size_t len = 0; long s = shard; int idx[16];
    for (int i = e->k - 1; i >= 0; i--) { idx[i] = (int)(s % e->nA); s /= e->nA; }
    for (int i = 0; i < e->k; i++) { memcpy(e->buf + len, e->A[idx[i]].b, (size_t)e->A[idx[i]].n); len += (size_t)e->A[idx[i]].n; }
    mc_enum_rec(e, len, e->k);
}
#define MC_TOK(s) { (const unsigned char *)(s), (int)(sizeof(s) - 1) }

#endif /* MC_H */
