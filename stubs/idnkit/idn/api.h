/* Stand-in for idnkit's <idn/api.h> (idnkit is not installed in this sandbox).
 * Only what partial/idnkit/*.c and include/eav.h use.  drv/shim.c implements it on
 * top of libidn2 and keeps a ledger of resolver contexts. */
#ifndef VERIF_STUB_IDN_API_H
#define VERIF_STUB_IDN_API_H
#include <stddef.h>
typedef int idn_result_t;          /* carries libidn2's code numbers */
#define idn_success 0
typedef struct verif_idn_resconf *idn_resconf_t;
typedef int idn_action_t;
#define IDN_ENCODE_REGIST 0x0100
extern idn_result_t idn_resconf_initialize (void);
extern idn_result_t idn_resconf_create (idn_resconf_t *ctx);
extern void idn_resconf_destroy (idn_resconf_t ctx);
extern idn_result_t idn_res_encodename (idn_resconf_t ctx, idn_action_t actions, const char *from, char *to, size_t tolen);
extern const char *idn_result_tostring (idn_result_t r);
#endif
