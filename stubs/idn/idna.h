/* Stand-in for GNU libidn's <idna.h> (libidn is not installed in this sandbox).
 * Only what partial/idn/*.c uses.  The implementation (drv/shim.c) forwards to the
 * same libidn2 converter the idn2 backend uses, and returns libidn2's code numbers. */
#ifndef VERIF_STUB_IDNA_H
#define VERIF_STUB_IDNA_H
#define IDNA_SUCCESS 0
extern int idna_to_ascii_lz (const char *input, char **output, int flags);
extern const char *idna_strerror (int rc);
#endif
