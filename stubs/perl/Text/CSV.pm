package Text::CSV;
# Minimal stand-in for Text::CSV (not installed in this sandbox): just what
# util/gentld.pl and util/gen_utf8_pass_test.pl use - new(), getline(), error_diag().
# RFC 4180 reading: quoted fields, "" escapes, LF / CRLF records, embedded newlines in quotes.
use strict;
use warnings;

our $VERSION = '0.00-verif-standin';
my $last_error = '';

sub new {
    my ($class, $opts) = @_;
    my $self = { %{ $opts || {} } };
    return bless $self, $class;
}

sub error_diag { return $last_error; }

sub getline {
    my ($self, $io) = @_;
    my $line = <$io>;
    return undef unless defined $line;
    # a record continues while the number of quotes is odd
    while ((() = $line =~ /"/g) % 2) {
        my $more = <$io>;
        last unless defined $more;
        $line .= $more;
    }
    $line =~ s/\r?\n\z//;
    my @f; my $i = 0; my $n = length $line;
    while (1) {
        my $field = '';
        if ($i < $n && substr($line, $i, 1) eq '"') {
            $i++;
            while ($i < $n) {
                my $c = substr($line, $i, 1);
                if ($c eq '"') {
                    if ($i + 1 < $n && substr($line, $i + 1, 1) eq '"') { $field .= '"'; $i += 2; next; }
                    $i++; last;
                }
                $field .= $c; $i++;
            }
        } else {
            while ($i < $n && substr($line, $i, 1) ne ',') { $field .= substr($line, $i, 1); $i++; }
        }
        push @f, $field;
        if ($i < $n && substr($line, $i, 1) eq ',') { $i++; next; }
        last;
    }
    return \@f;
}
1;
