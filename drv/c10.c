/* c10.c - C10: U-label and A-label spellings of a domain are treated identically.
 * The harness converts U->A itself (idn2_to_ascii_8z, IDN2_NONTRANSITIONAL) and compares, for tld_check on and off:
 *   (6531,U) == (6531,A) in rc and flags;  (822/5321/5322, A) == (6531,A) in rc (decision and class)
 *   all-ASCII D: 6531-accept => ASCII-accept with the same rc; 6531-reject & ASCII-accept => EEAV_IDN_ERROR
 *   conversion fails or input is not UTF-8 => rejected in mode 6531
 * Enumerated: all labels of 1-2 (thorough 3) symbols over 32 letters/digits of 8 scripts + {a,1,-}, domains of 1-3 such
 * labels x 4 suffixes; every IDN TLD row in U and A form; negative families.
 */
#include "corpus.h"
#include "../ref/ref_idn.h"
#include "../ref/ref_tld.h"
#include <eav.h>
#include <eav/auto_tld.h>

static int C_CONV_OK, C_CONV_FAIL, C_ASCII, C_NEG, C_CASES;
typedef eav_result_t *(*email_fn)(const char *, size_t, bool);
static email_fn EMAIL[4] = { is_822_email, is_5321_email, is_5322_email, is_6531_email };
static const char *MN[4] = { "822", "5321", "5322", "6531" };

typedef struct { int rc, v4, v6, dom, idn; } out_t;
static out_t run(int m, const char *d, int tld) {
    char buf[4200]; int n = snprintf(buf, sizeof buf, "x@%s", d);
    eav_result_t *r = EMAIL[m](buf, (size_t)n, tld);
    out_t o = { r->rc, r->is_ipv4, r->is_ipv6, r->is_domain, r->idn_rc };
    eav_result_free(r); MC_ADD(C_EVAL, 1);
    return o;
}

static const char *g_pred;
static void check_idn(const char *sub, const char *u) {
    size_t n = strlen(u); if (n == 0 || n > 3900) return;
    mc_current(sub, "", u, n); MC_ADD(C_CASES, 1);
    int ascii = 1; for (size_t i = 0; i < n; i++) if ((unsigned char)u[i] >= 0x80) ascii = 0;
    char *a = NULL;
    int r = idn2_to_ascii_8z(u, &a, IDN2_NONTRANSITIONAL);
    for (int tld = 0; tld < 2; tld++) {
        char cfg[32]; snprintf(cfg, sizeof cfg, "tld=%d", tld);
        if (g_pred) (void)run(3, g_pred, tld);      /* hidden state: the spelling under test directly follows another mode-6531 validation */
        out_t ou = run(3, u, tld);
        if (r != IDN2_OK) {
            if (!tld) MC_ADD(C_CONV_FAIL, 1);
            if (ou.rc >= 0) mc_violation(sub, "6531:accepts-what-idna-rejects", "", cfg, u, n, "independent conversion fails (%d: %s) but mode 6531 rc=%d", r, idn2_strerror(r), ou.rc);
            if (ou.dom || ou.v4 || ou.v6) mc_violation(sub, "6531:flag-set-on-idn-failure", "", cfg, u, n, "conversion fails but flags dom=%d v4=%d v6=%d", ou.dom, ou.v4, ou.v6);
            /* all-ASCII: whenever 6531 rejects what the ASCII modes accept, the reason is the IDN library */
            if (ascii) { out_t o8 = run(0, u, tld); if (o8.rc >= 0 && ou.rc != -EEAV_IDN_ERROR) mc_violation(sub, "ascii:6531-rejects-with-non-idn-reason", "", cfg, u, n, "mode 822 rc=%d, mode 6531 rc=%d (not IDN error)", o8.rc, ou.rc); }
            continue;
        }
        if (!tld) MC_ADD(C_CONV_OK, 1);
        /* IDNA maps a few code points to '@' or '[' (U+FF20, U+FE6B, U+FF3B, U+FE47 ...): then x@<converted name> does not have the converted
         * name as its domain part any more, so there is no A-label observation to compare with; such a name is not a host name: rejected */
        if (strchr(a, '@') || a[0] == '[') {
            if (ou.rc >= 0) mc_violation(sub, "6531:accepts-name-that-converts-to-non-hostname", "", cfg, u, n, "converted name '%s' is not a host name but mode 6531 rc=%d", a, ou.rc);
            continue;
        }
        out_t oa = run(3, a, tld);
        if (ou.rc != oa.rc || ou.dom != oa.dom || ou.v4 != oa.v4 || ou.v6 != oa.v6)
            mc_violation(sub, "6531:u-label-vs-a-label", "", cfg, u, n, "U-label rc=%d flags %d%d%d ; A-label '%s' rc=%d flags %d%d%d", ou.rc, ou.dom, ou.v4, ou.v6, a, oa.rc, oa.dom, oa.v4, oa.v6);
        for (int m = 0; m < 3; m++) {
            out_t ox = run(m, a, tld);
            if (ox.rc != oa.rc) {
                char w[64]; snprintf(w, sizeof w, "%s-vs-6531-on-a-label", MN[m]);
                mc_violation(sub, w, "", cfg, u, n, "A-label '%s': mode %s rc=%d, mode 6531 rc=%d", a, MN[m], ox.rc, oa.rc);
            }
        }
        if (ascii) {
            /* the ASCII spelling itself (may differ from its A-label by case only) */
            out_t o8 = run(0, u, tld);
            if (ou.rc >= 0 && o8.rc != ou.rc) mc_violation(sub, "ascii:6531-accepts-ascii-differs", "", cfg, u, n, "all-ASCII: mode 6531 rc=%d but mode 822 rc=%d", ou.rc, o8.rc);
            if (ou.rc < 0 && o8.rc >= 0 && ou.rc != -EEAV_IDN_ERROR) mc_violation(sub, "ascii:6531-rejects-with-non-idn-reason", "", cfg, u, n, "mode 822 rc=%d, mode 6531 rc=%d", o8.rc, ou.rc);
        }
    }
    if (a) free(a);
}

/* symbols: 3 letters + 1 digit of 8 scripts, + ASCII */
static const char *const SYM[] = {
    "\xd0\xb6", "\xd0\xb0", "\xd1\x8f", "\xd1\x91",
    "\xce\xb1", "\xce\xb2", "\xcf\x89", "\xe0\xa5\xa7",
    "\xe4\xb8\xad", "\xe6\x96\x87", "\xe7\xbd\x91", "\xe4\xb8\x80",
    "\xea\xb0\x80", "\xed\x95\x9c", "\xeb\xb0\x94", "\xec\x82\xbc",
    "\xd8\xa8", "\xd8\xaa", "\xd9\x85", "\xd9\xa3",
    "\xd7\x90", "\xd7\x91", "\xd7\xaa", "\xd7\x9d",
    "\xe0\xa4\x95", "\xe0\xa4\xae", "\xe0\xa4\xa8", "\xe0\xa5\xa9",
    "\xc3\xa9", "\xc3\xbc", "\xc3\xb1", "\xc3\x9f",
    "a", "1", "-" };
#define NSYM 35
static char LAB[50000][16]; static int NLAB, NLAB1, NLAB2;
static const char *const SUF[] = { "\xd1\x80\xd1\x84", "com", "zzzzq", "example" };

static void build_labels(int maxlen) {
    for (int i = 0; i < NSYM; i++) snprintf(LAB[NLAB++], 16, "%s", SYM[i]);
    NLAB1 = NLAB;
    for (int i = 0; i < NSYM; i++) for (int j = 0; j < NSYM; j++) snprintf(LAB[NLAB++], 16, "%s%s", SYM[i], SYM[j]);
    NLAB2 = NLAB;
    if (maxlen >= 3) for (int i = 0; i < NSYM; i++) for (int j = 0; j < NSYM; j++) for (int k = 0; k < NSYM; k++) snprintf(LAB[NLAB++], 16, "%s%s%s", SYM[i], SYM[j], SYM[k]);
}
static void one_label_shard(long s, void *arg) {
    (void)arg; char d[200];
    check_idn("1label", LAB[s]);
    for (int f = 0; f < 4; f++) { snprintf(d, sizeof d, "%s.%s", LAB[s], SUF[f]); check_idn("1label", d); MC_ADD(C_NONTRIV, 1); }
}
static int TWO_SECOND;   /* how many labels may stand in second position */
static void two_label_shard(long s, void *arg) {
    (void)arg; char d[200];
    for (int j = 0; j < TWO_SECOND; j++) for (int f = 0; f < 4; f++) { snprintf(d, sizeof d, "%s.%s.%s", LAB[s], LAB[j], SUF[f]); check_idn("2labels", d); MC_ADD(C_NONTRIV, 1); }
}
static void three_label_shard(long s, void *arg) {
    (void)arg; char d[200];
    for (int j = 0; j < NLAB1; j++) for (int k = 0; k < NLAB1; k++) for (int f = 0; f < 4; f++) { snprintf(d, sizeof d, "%s.%s.%s.%s", LAB[s], LAB[j], LAB[k], SUF[f]); check_idn("3labels", d); MC_ADD(C_NONTRIV, 1); }
}
static rt_csv_t RAW;
static void tld_shard(long s, void *arg) {
    (void)arg; char d[800];
    /* every row of the table as the last label of an all-ASCII domain (the C07 corpus), three case spellings */
    snprintf(d, sizeof d, "a.%s", RT_PUNY.row[s].domain); check_idn("table-row", d);
    snprintf(d, sizeof d, "Abc-1.q.%s", RT_PUNY.row[s].domain); for (char *q = d + 8; *q; q++) *q = (char)toupper((unsigned char)*q); check_idn("table-row", d);
    snprintf(d, sizeof d, "%s.%s", RT_PUNY.row[s].domain, RT_PUNY.row[s].domain); d[0] = (char)toupper((unsigned char)d[0]); check_idn("table-row", d);
    snprintf(d, sizeof d, "%s", RT_PUNY.row[s].domain); check_idn("table-row", d);
    MC_ADD(C_NONTRIV, 3);
    if (strncmp(RT_PUNY.row[s].domain, "xn--", 4) != 0) return;
    snprintf(d, sizeof d, "%s.%s", RAW.row[s].domain, RAW.row[s].domain); check_idn("idn-tld", d);
    snprintf(d, sizeof d, "a.%s", RAW.row[s].domain); check_idn("idn-tld", d);
    snprintf(d, sizeof d, "%s.%s", SYM[0], RAW.row[s].domain); check_idn("idn-tld", d);
    snprintf(d, sizeof d, "%s", RAW.row[s].domain); check_idn("idn-tld", d);
    snprintf(d, sizeof d, "a.%s", RT_PUNY.row[s].domain); check_idn("idn-tld", d);
    MC_ADD(C_NONTRIV, 5);
}
/* ASCII domains: short strings over {a,Z,1,-,.,x,n} (covers xn-- prefixes and case) */
static const mc_tok_t SIGA[] = { MC_TOK("a"), MC_TOK("Z"), MC_TOK("1"), MC_TOK("-"), MC_TOK("."), MC_TOK("xn--"), MC_TOK("com") };
static void ascii_cb(const unsigned char *s, size_t n, int nt, void *a) {
    (void)nt; (void)a; if (!n) return; char d[64]; memcpy(d, s, n); d[n] = 0; check_idn("ascii", d); MC_ADD(C_ASCII, 1);
}
static mc_enum_t EA;
static void ascii_shard(long s, void *a) { (void)a; mc_enum_t e = EA; mc_enum_shard(&e, s); }

/* negatives */
static void neg_shard(long shard, void *arg) {
    (void)arg; char d[400];
    if (shard < 255) {          /* every 2-byte pattern with this first byte inside a label: invalid UTF-8 must be rejected, valid is compared */
        for (int b = 1; b < 256; b++) {
            int n = snprintf(d, sizeof d, "a%c%cb.com", (int)(shard + 1), b); (void)n;
            if (strlen(d) != 8) continue;
            check_idn("neg-2byte", d); MC_ADD(C_NEG, 1);
        }
        return;
    }
    static const char *const fam[] = { "\xe2\x99\xa5.de", "I\xe2\x99\xa5NY.de", "\xe2\x98\x95.de", "-\xd0\xb6.com", "\xd0\xb6-.com", "\xd0\xb6\xd0\xb6--\xd0\xb6.com", "ab--\xd0\xb6.com", "ab--cd.com",
        "xn--.com", "xn--a.com", "xn--\xd0\xb6.com", "\xd0\xb6..com", ".\xd0\xb6.com", "\xd0\xb6.com.", "\xd0\xb6.com..", "\xd0\xb6 .com", "\xd0\xb6_\xd0\xb6.com", "\xef\xbc\x8e\xd0\xb6.com", "\xd0\xb6\xe3\x80\x82" "com",
        "\xe2\x80\x8d\xd0\xb6.com", "\xd0\xb6\xe2\x80\x8c\xd0\xb6.com", "\xd0\x96.com", "\xc3\x9f.de", "\xcf\x82.gr", "a\xcc\x81.com", "\xd8\xa8" "a.com", "1\xd8\xa8.com", "\xd8\xa8" "1.com" };
    for (unsigned i = 0; i < sizeof fam / sizeof fam[0]; i++) { check_idn("neg-family", fam[i]); MC_ADD(C_NEG, 1); }
    /* long multi-label U-label domains: the UTF-8 spelling crosses 253/255 bytes while the A-label form stays (or does not stay) within the
     * limit - 1..7 labels of 8..56 two-byte or three-byte letters, with three suffixes */
    for (int nl = 1; nl <= 7; nl++) for (int per = 8; per <= 56; per += 2) for (int three = 0; three < 2; three++) for (int sf = 0; sf < 3; sf++) {
        char big[1500]; int l = 0;
        for (int k = 0; k < nl; k++) {
            for (int i = 0; i < per; i++) {
                if (three) { big[l++] = (char)0xe4; big[l++] = (char)0xb8; big[l++] = (char)(0x80 + (i * 7 + k) % 48); }
                else { big[l++] = (char)0xd0; big[l++] = (char)(0xb0 + (i + k) % 16); }
            }
            big[l++] = '.';
        }
        static const char *const sfx[3] = { "\xd1\x80\xd1\x84", "com", "ac" };
        strcpy(big + l, sfx[sf]);
        if (strlen(big) < 1000) { check_idn("neg-length-multi", big); MC_ADD(C_NEG, 1); }
    }
    /* U-labels whose A-label length crosses 63: k Cyrillic letters + filler */
    for (int k = 1; k <= 40; k++) for (int asc = 0; asc <= 63; asc++) {
        int l = 0; for (int i = 0; i < asc; i++) d[l++] = 'a'; for (int i = 0; i < k; i++) { d[l++] = (char)0xd0; d[l++] = (char)(0xb0 + i % 16); }
        memcpy(d + l, ".com", 5); check_idn("neg-length", d); MC_ADD(C_NEG, 1);
    }
}

static int L5PH;
static void l5_emit(const unsigned char *s, size_t n, void *arg) { (void)arg; if (n > 2 && n < 3900 && s[0] == 'x' && s[1] == '@' && !memchr(s + 2, 0, n - 2)) { char d[4000]; memcpy(d, s + 2, n - 2); d[n - 2] = 0; check_idn("corpus", d); MC_ADD(C_NEG, 1); } }
static void l5_shard(long shard, void *arg) { (void)arg; corpus_run(L5PH, shard, l5_emit, NULL); }

/* every ordered pair of a family of long domains that share their first >= 255 bytes (and of short domains of equal length):
 * the U-label spelling is validated right after the other member, then compared with its own A-label spelling as usual */
static char FAM[3][16][1200]; static int NFAM[3];
static void build_families(void) {
    static const char *const T[] = { "com", "zzzzq", "\xd1\x80\xd1\x84", "\xd0\xbc\xd0\xbe\xd1\x81\xd0\xba\xd0\xb2\xd0\xb0", "\xe2\x99\xa5", "a\xff", "org", "-a", "example", "ac", "abarth" };
    for (int pl = 0; pl < 3; pl++) {
        char P[900]; int l = 0; int per = 30 + pl * 10, nl = 5 - pl;
        for (int k = 0; k < nl; k++) { for (int i = 0; i < per; i++) { P[l++] = (char)0xd0; P[l++] = (char)(0xb0 + (i + 3 * k) % 16); } P[l++] = '.'; }
        P[l] = 0;
        for (unsigned t = 0; t < sizeof T / sizeof T[0]; t++) snprintf(FAM[pl][NFAM[pl]++], 1200, "%s%s", P, T[t]);
    }
}
static void pair_shard(long shard, void *arg) {
    (void)arg; int pl = (int)(shard / 16), i = (int)(shard % 16); if (i >= NFAM[pl]) return;
    for (int j = 0; j < NFAM[pl]; j++) { g_pred = FAM[pl][i]; check_idn("pair", FAM[pl][j]); g_pred = NULL; MC_ADD(C_NEG, 1); }
}
static void shortpair_shard(long shard, void *arg) {
    (void)arg; static const char AL[] = "abcdefghijklmnopqrstuvwxyz0123456789"; char p[16], d[16];
    snprintf(p, sizeof p, "b.%c%c", AL[shard / 36], AL[shard % 36]);
    for (int a = 0; a < 36; a++) for (int b = 0; b < 36; b++) { snprintf(d, sizeof d, "b.%c%c", AL[a], AL[b]); g_pred = p; check_idn("shortpair", d); g_pred = NULL; MC_ADD(C_NEG, 1); }
}

/* every Unicode scalar value U+0080..U+10FFFF as a label of its own and after a letter: the library's verdict on the U-label spelling follows the
 * independent conversion for each single code point (a code-point-level filter in front of the converter shows here and nowhere else) */
static void scalar_shard(long shard, void *arg) {
    (void)arg; unsigned long lo = (unsigned long)shard * 0x1000, hi = lo + 0x1000;
    for (unsigned long cp = lo; cp < hi; cp++) {
        if (cp < 0x80 || (cp >= 0xd800 && cp <= 0xdfff)) continue;
        char u[8], d[32]; int l = 0;
        if (cp < 0x800) { u[l++] = (char)(0xc0 | (cp >> 6)); u[l++] = (char)(0x80 | (cp & 0x3f)); }
        else if (cp < 0x10000) { u[l++] = (char)(0xe0 | (cp >> 12)); u[l++] = (char)(0x80 | ((cp >> 6) & 0x3f)); u[l++] = (char)(0x80 | (cp & 0x3f)); }
        else { u[l++] = (char)(0xf0 | (cp >> 18)); u[l++] = (char)(0x80 | ((cp >> 12) & 0x3f)); u[l++] = (char)(0x80 | ((cp >> 6) & 0x3f)); u[l++] = (char)(0x80 | (cp & 0x3f)); }
        u[l] = 0;
        snprintf(d, sizeof d, "%s.com", u); check_idn("scalar", d);
        snprintf(d, sizeof d, "a%s.com", u); check_idn("scalar", d);
        snprintf(d, sizeof d, "a%scom", u); check_idn("scalar", d);          /* between label characters, no other dot: a code point treated as a separator */
        snprintf(d, sizeof d, "a%sb.com", u); check_idn("scalar", d);
        MC_ADD(C_NEG, 4);
    }
}

/* RFC 3492 encoder for ONE label of code points (the harness's own: libidn2 exports no raw Punycode call) */
static int puny_adapt(unsigned delta, unsigned numpoints, int first) { unsigned k = 0; delta = first ? delta / 700 : delta / 2; delta += delta / numpoints; while (delta > 455) { delta /= 35; k += 36; } return (int)(k + 36 * delta / (delta + 38)); }
static int puny_encode(const unsigned long *cp, int n, char *out, int cap) {
    unsigned nn = 128, delta = 0, bias = 72; int o = 0, h, b = 0;
    for (int i = 0; i < n; i++) if (cp[i] < 128) { if (o >= cap - 1) return -1; out[o++] = (char)cp[i]; b++; }
    h = b; if (b) out[o++] = '-';
    while (h < n) {
        unsigned long m = 0x7fffffff; for (int i = 0; i < n; i++) if (cp[i] >= nn && cp[i] < m) m = cp[i];
        delta += (unsigned)(m - nn) * (unsigned)(h + 1); nn = (unsigned)m;
        for (int i = 0; i < n; i++) {
            if (cp[i] < nn) delta++;
            if (cp[i] == nn) {
                unsigned q = delta;
                for (unsigned k = 36;; k += 36) { unsigned t = k <= bias ? 1 : k >= bias + 26 ? 26 : k - bias; if (q < t) break; unsigned d = t + (q - t) % (36 - t); if (o >= cap - 1) return -1; out[o++] = (char)(d < 26 ? 'a' + d : '0' + d - 26); q = (q - t) / (36 - t); }
                if (o >= cap - 1) return -1; out[o++] = (char)(q < 26 ? 'a' + q : '0' + q - 26);
                bias = (unsigned)puny_adapt(delta, (unsigned)h + 1, h == b); delta = 0; h++;
            }
        }
        delta++; nn++;
    }
    out[o] = 0; return o;
}
/* MIXED spellings: an A-label that the converter refuses only when it decodes and re-validates it (its U-form is a disallowed / unassigned /
 * contextually wrong code point) next to a label that is NOT ASCII - a converter call that skips the round trip "because the input is UTF-8
 * anyway" lets it through in exactly this combination.  For every scalar whose one-character label (alone and after a letter) the independent
 * conversion refuses: xn--<punycode> before a Cyrillic TLD, behind a Cyrillic label, before an ideographic full stop, before fullwidth "com". */
static int C_MIXED;
static void mixed_shard(long shard, void *arg) {
    (void)arg; unsigned long lo = (unsigned long)shard * 0x1000, hi = lo + 0x1000;
    if (!mc_thorough && !(lo < 0x3000 || (lo >= 0xa000 && lo < 0xb000) || (lo >= 0xf000 && lo < 0x10000) || (lo >= 0x1f000 && lo < 0x20000) || lo == 0xe0000)) return;
    for (unsigned long cp = lo; cp < hi; cp++) {
        if (cp < 0x80 || (cp >= 0xd800 && cp <= 0xdfff)) continue;
        for (int shape = 0; shape < 2; shape++) {
            unsigned long L[2]; int n = 0; if (shape) L[n++] = 'a'; L[n++] = cp;
            char pc[40], al[48], d[160]; if (puny_encode(L, n, pc, sizeof pc) < 0) continue;
            snprintf(al, sizeof al, "xn--%s", pc);
            snprintf(d, sizeof d, "%s.com", al);
            char *a = NULL; int r = idn2_to_ascii_8z(d, &a, IDN2_NONTRANSITIONAL); if (a) free(a);
            if (r == IDN2_OK) continue;                      /* a fine A-label: the scalar sweep has it in both spellings */
            MC_ADD(C_MIXED, 1);
            check_idn("mixed", d);
            snprintf(d, sizeof d, "%s.\xd1\x80\xd1\x84", al); check_idn("mixed", d);
            snprintf(d, sizeof d, "\xd0\xb6.%s.com", al); check_idn("mixed", d);
            snprintf(d, sizeof d, "%s\xe3\x80\x82" "com", al); check_idn("mixed", d);
            snprintf(d, sizeof d, "%s.\xef\xbd\x83\xef\xbd\x8f\xef\xbd\x8d", al); check_idn("mixed", d);
            snprintf(d, sizeof d, "\xd0\xb6%s.com", al); check_idn("mixed", d);     /* and glued behind a non-ASCII character: then it is no A-label at all */
        }
    }
}

/* IDNA2008 contextual code points (RFC 5892 appendix A: ZWNJ, ZWJ, MIDDLE DOT, Greek keraia, Hebrew geresh / gershayim, Katakana middle dot) are valid
 * only next to certain neighbours: every one of them between every ordered pair of 34 neighbours (letters of the scripts concerned, viramas of six
 * scripts, ASCII) and after a virama; the independent conversion decides, the library must follow it for the U-label and agree on the A-label. */
static void contextual_shard(long shard, void *arg) {
    (void)arg;
    static const char *const CTX[7] = { "\xe2\x80\x8c", "\xe2\x80\x8d", "\xc2\xb7", "\xcd\xb5", "\xd7\xb3", "\xd7\xb4", "\xe3\x83\xbb" };
    static const char *const NB[34] = { "l", "a", "1", "\xe0\xa4\x95", "\xe0\xa4\xae", "\xe0\xa5\x8d", "\xe0\xa6\x95", "\xe0\xa7\x8d", "\xe0\xae\x95", "\xe0\xaf\x8d", "\xe0\xb6\x9a", "\xe0\xb7\x8a",
        "\xe0\xb4\x95", "\xe0\xb5\x8d", "\xe0\xb2\x95", "\xe0\xb3\x8d", "\xd8\xa8", "\xd9\x84", "\xd8\xa7", "\xd9\x86", "\xce\xb1", "\xce\xb2", "\xd7\x90", "\xd7\x91", "\xe3\x82\xa2", "\xe3\x81\x82", "\xe4\xb8\xad",
        "\xd0\xb6", "\xc3\xa9", "\xd9\xa1", "\xdb\xb1", "-", "\xea\xb0\x80", "" };
    const char *c = CTX[shard]; char d[96];
    for (int x = 0; x < 34; x++) for (int y = 0; y < 34; y++) {
        snprintf(d, sizeof d, "%s%s%s.com", NB[x], c, NB[y]); check_idn("contextual", d);
        snprintf(d, sizeof d, "%s%s%s%s.com", NB[x], NB[y], c, NB[x]); check_idn("contextual", d);       /* X Y c X : virama second */
        snprintf(d, sizeof d, "a.%s%s%s", NB[x], c, NB[y]); check_idn("contextual", d);
        MC_ADD(C_NEG, 3);
    }
    /* Arabic-Indic and extended Arabic-Indic digits may not be mixed (shard 0 only) */
    if (shard == 0) for (int a = 0; a < 10; a++) for (int b = 0; b < 10; b++) { snprintf(d, sizeof d, "\xd8\xa8\xd9%c\xdb%c.com", 0xa0 + a, 0xb0 + b); check_idn("contextual", d); snprintf(d, sizeof d, "\xd8\xa8\xd9%c\xd9%c.com", 0xa0 + a, 0xa0 + b); check_idn("contextual", d); MC_ADD(C_NEG, 2); }
}

static int do_replay(void) {
    mc_replay_t r; if (mc_load_replay(mc_replay, &r)) return 2;
    mc_replay_hit = 0; char d[MC_CASEMAX + 1]; memcpy(d, r.in, (size_t)r.len); d[r.len] = 0; check_idn(r.sub, d);
    if (!mc_replay_hit && !strcmp(r.sub, "pair")) for (int pl = 0; pl < 3; pl++) for (int i = 0; i < NFAM[pl] && !mc_replay_hit; i++) { g_pred = FAM[pl][i]; check_idn(r.sub, d); g_pred = NULL; }
    if (!mc_replay_hit && !strcmp(r.sub, "shortpair")) { static const char AL[] = "abcdefghijklmnopqrstuvwxyz0123456789"; char p[16];
        for (int a = 0; a < 36 && !mc_replay_hit; a++) for (int b = 0; b < 36 && !mc_replay_hit; b++) { snprintf(p, sizeof p, "b.%c%c", AL[a], AL[b]); g_pred = p; check_idn(r.sub, d); g_pred = NULL; } }
    printf("replay %s: %s\n", mc_replay, mc_replay_hit ? "VIOLATION reproduced" : "no violation");
    return mc_replay_hit ? 1 : 0;
}

int main(int argc, char **argv) {
    mc_init(argc, argv, "C10");
    C_CASES = mc_counter("domains"); C_CONV_OK = mc_counter("independent_conversion_ok"); C_CONV_FAIL = mc_counter("independent_conversion_failed");
    C_ASCII = mc_counter("ascii_domains"); C_NEG = mc_counter("negative_family_cases");
    if (rt_load()) return 2;
    char p[1024]; snprintf(p, sizeof p, "%s/data/raw.csv", rt_repo()); if (rt_read_csv(p, &RAW, 1)) return 2;
    build_labels(mc_thorough ? 3 : 2);
    build_families();
    if (mc_replay) return do_replay();
    if (corpus_load()) return 2;
    { static const int PH[] = { CP_LONGIDN, CP_ALTDOT, CP_LABELLEN, CP_WHOLEDOM, CP_DEPTH, CP_EMBED, CP_SHORTLAB };
      for (unsigned i = 0; i < sizeof PH / sizeof PH[0]; i++) { L5PH = PH[i]; char nm5[80]; snprintf(nm5, sizeof nm5, "corpus: %.60s", corpus_name(L5PH)); mc_parallel(nm5, corpus_shards(L5PH), l5_shard, NULL); } }
    mc_parallel("contextual: 7 CONTEXTJ/CONTEXTO code points between every ordered pair of 34 neighbours (letters, viramas of six scripts, digits), 3 shapes", 7, contextual_shard, NULL);
    mc_parallel("scalars: every Unicode scalar value U+0080..U+10FFFF as a one-character label and after a letter, before .com", 0x110000 / 0x1000, scalar_shard, NULL);
    C_MIXED = mc_counter("mixed_spelling_bad_a_labels");
    mc_parallel(mc_thorough ? "mixed: xn-- form of every scalar the converter refuses (alone, after a letter) next to non-ASCII labels / dots, 6 shapes" : "mixed: xn-- form of every refused scalar of U+0080-2FFF, A000-AFFF, F000-FFFF, 1F000-1FFFF, E0000-E0FFF next to non-ASCII labels / dots, 6 shapes", 0x110000 / 0x1000, mixed_shard, NULL);
    mc_parallel("pairs: every ordered pair of long domains sharing a >= 255-byte prefix, second one right after the first", 48, pair_shard, NULL);
    mc_parallel("pairs: every ordered pair of the 1296 domains b.XY, second one right after the first", 1296, shortpair_shard, NULL);
    mc_parallel("negatives: every 2-byte pattern inside a label, symbol/hyphen/length families", 256, neg_shard, NULL);
    mc_parallel("every table row as last label of an ASCII domain; IDN TLD rows in U- and A-form", RAW.n < RT_PUNY.n ? RAW.n : RT_PUNY.n, tld_shard, NULL);
    memset(&EA, 0, sizeof EA); EA.A = SIGA; EA.nA = 7; EA.N = mc_thorough ? 7 : 6; EA.k = 2; EA.fn = ascii_cb;
    mc_parallel("ascii: all strings over {a,Z,1,-,.,xn--,com}", mc_enum_shards(&EA), ascii_shard, NULL);
    mc_parallel("1 label (all labels) x 4 suffixes", NLAB, one_label_shard, NULL);
    TWO_SECOND = mc_thorough ? NLAB2 : NLAB1;
    mc_parallel(mc_thorough ? "2 labels: all 1-2-symbol labels squared x 4 suffixes" : "2 labels: (all 1-2-symbol labels) x (1-symbol labels) x 4 suffixes", NLAB2, two_label_shard, NULL);
    mc_parallel("3 labels of one symbol each x 4 suffixes", NLAB1, three_label_shard, NULL);
    return mc_finish();
}
