/* c06cost.c - C06, "work linear in the input", decided deterministically: cost of a call = basic blocks executed
 * (trace-pc-guard) + bytes touched by the libc string functions the library calls (wrapped at link time).
 * Required: cost <= 64*n + 30000 for every enumerated input (the constant covers one walk of the 1591-entry TLD table).
 * Work inside libidn2 is not counted (uninstrumented) - said so in the evidence. */
#include "corpus.h"
#include <eav.h>
static unsigned long COST;
void __sanitizer_cov_trace_pc_guard_init(uint32_t *start, uint32_t *stop) { static uint32_t n; for (uint32_t *x = start; x < stop; x++) if (!*x) *x = ++n; }
void __sanitizer_cov_trace_pc_guard(uint32_t *g) { (void)g; COST++; }
extern size_t __real_strlen(const char *);
#define W(ret, name, decl, call, cost) extern ret __real_##name decl; ret __wrap_##name decl { ret r_ = __real_##name call; COST += (unsigned long)(cost); return r_; }
W(void *, memcpy, (void *d, const void *s, size_t n), (d, s, n), n)
W(void *, memchr, (const void *s, int c, size_t n), (s, c, n), r_ ? (size_t)((const char *)r_ - (const char *)s) + 1 : n)
W(char *, strchr, (const char *s, int c), (s, c), r_ ? (size_t)(r_ - s) + 1 : __real_strlen(s) + 1)
W(char *, strrchr, (const char *s, int c), (s, c), __real_strlen(s) + 1)
W(size_t, strspn, (const char *s, const char *a), (s, a), r_ + 1)
W(int, strncasecmp, (const char *a, const char *b, size_t n), (a, b, n), n)
size_t __wrap_strlen(const char *s) { size_t r = __real_strlen(s); COST += r + 1; return r; }

typedef eav_result_t *(*email_fn)(const char *, size_t, bool);
static email_fn EMAIL[4] = { is_822_email, is_5321_email, is_5322_email, is_6531_email };
static const char *MN[4] = { "822", "5321", "5322", "6531" };
static int C_ADDR, C_MAXRATIO, CURPH;
static unsigned long g_maxcost, g_maxn;
static void sink(const unsigned char *s, size_t n, void *arg) {
    (void)arg; for (size_t i = 0; i < n; i++) if (!s[i]) return;
    mc_current(corpus_name(CURPH), "", s, n); MC_ADD(C_ADDR, 1);
    char *p = malloc(n + 1); memcpy(p, s, n); p[n] = 0;
    for (int m = 0; m < 4; m++) for (int t = 0; t < 2; t++) {
        COST = 0; eav_result_t *r = EMAIL[m](p, n, t); unsigned long c = COST; eav_result_free(r); MC_ADD(C_EVAL, 1);
        if (c > g_maxcost) { g_maxcost = c; g_maxn = n; }
        if (c > 64ul * n + 30000ul) {
            char cfg[64]; snprintf(cfg, sizeof cfg, "mode=%s tld=%d", MN[m], t);
            mc_violation(n > MC_CASEMAX ? "noreplay-long-input" : corpus_name(CURPH), "work-not-linear", "", cfg, s, n, "input of %zu bytes cost %lu units (blocks + libc bytes), bound 64*n+30000 = %lu", n, c, 64ul * n + 30000ul);
        }
    }
    free(p);
    if (n >= 64) MC_ADD(C_NONTRIV, 1);
}
static void phase_shard(long shard, void *arg) { (void)arg; corpus_run(CURPH, shard, sink, NULL);
    uint64_t cur = mc_sh->ctr[C_MAXRATIO]; if (g_maxcost > cur) mc_sh->ctr[C_MAXRATIO] = g_maxcost; }
int main(int argc, char **argv) {
    mc_init(argc, argv, "C06cost"); CORPUS_DEEP = mc_thorough;
    C_ADDR = mc_counter("inputs_costed"); C_MAXRATIO = mc_counter("max_cost_units_of_one_call");
    if (corpus_load()) return 2;
    if (mc_replay) { mc_replay_t r; if (mc_load_replay(mc_replay, &r)) return 2; mc_replay_hit = 0; sink(r.in, (size_t)r.len, NULL); printf("replay: %s\n", mc_replay_hit ? "VIOLATION reproduced" : "no violation"); return mc_replay_hit ? 1 : 0; }
    static const int PH[] = { CP_LONG, CP_EMAIL, CP_TLD, CP_DOMAIN, CP_LITERAL, CP_BYTES };
    for (unsigned i = 0; i < sizeof PH / sizeof PH[0]; i++) { CURPH = PH[i]; char nm[72]; snprintf(nm, sizeof nm, "cost: %.48s", corpus_name(CURPH)); mc_parallel(nm, corpus_shards(CURPH), phase_shard, NULL); }
    return mc_finish();
}
