/* c17.c - C17: build options change exactly what they document and nothing else.
 * The 8 combinations of RFC6531_FOLLOW_RFC5322 (bit 0), RFC6531_FOLLOW_RFC20 (bit 1), LABELS_ALLOW_UNDERSCORE (bit 2)
 * are built as 8 shared objects from the current tree and loaded side by side (dlopen RTLD_LOCAL, -Bsymbolic).
 * For every address of the corpora, every mode and tld_check, every variant v is compared with the variant that has
 * one option fewer (so deltas compose by construction of the check):
 *   + RFC20      : identical, except mode 6531 must reject when the local part has one of # ^ ` { | } ~ outside quotes
 *   + UNDERSCORE : identical when the host name has no '_'; otherwise the decision equals the reference with '_' as a letter
 *   + RFC5322    : ASCII modes identical; mode 6531 judges pure-ASCII local parts as the same build's mode 5322 does,
 *                  malformed UTF-8 stays rejected, well-formed non-ASCII local parts without control/whitespace are unchanged
 */
#include "corpus.h"
#include "../ref/ref_idn.h"
#include <dlfcn.h>
#include <stdbool.h>

typedef struct eav_result_s { bool is_ipv4, is_ipv6, is_domain; int rc; int idn_rc; } res_t;   /* layout of the default (non-EXTRA, non-idnkit) build */
typedef res_t *(*email_fn)(const char *, size_t, bool);
typedef int (*part_fn)(const char *, const char *);
typedef struct { void *h; email_fn email[4]; part_fn local[4], ascii_domain; void (*rfree)(res_t *); } var_t;
static var_t VAR[8];
static const char *MN[4] = { "822", "5321", "5322", "6531" };
static int C_ADDR, C_DELTA20, C_DELTAUS, C_DELTA5322, C_SAME, CURPH;

static void load(int v, const char *path) {
    var_t *x = &VAR[v]; x->h = dlopen(path, RTLD_NOW | RTLD_LOCAL);
    if (!x->h) { fprintf(stderr, "dlopen %s: %s\n", path, dlerror()); exit(2); }
    static const char *en[4] = { "is_822_email", "is_5321_email", "is_5322_email", "is_6531_email" }, *ln[4] = { "is_822_local", "is_5321_local", "is_5322_local", "is_6531_local" };
    for (int m = 0; m < 4; m++) { *(void **)&x->email[m] = dlsym(x->h, en[m]); *(void **)&x->local[m] = dlsym(x->h, ln[m]); if (!x->email[m] || !x->local[m]) exit(2); }
    *(void **)&x->ascii_domain = dlsym(x->h, "is_ascii_domain"); *(void **)&x->rfree = dlsym(x->h, "eav_result_free");
    if (!x->ascii_domain || !x->rfree) exit(2);
}
typedef struct { int rc, f; } out_t;
static out_t call(int v, int m, const char *s, size_t n, int t) { res_t *r = VAR[v].email[m](s, n, t); out_t o = { r->rc, r->is_ipv4 * 4 + r->is_ipv6 * 2 + r->is_domain }; VAR[v].rfree(r); MC_ADD(C_EVAL, 1); return o; }
static void viol(const char *why, int v, int m, int t, const unsigned char *s, size_t n, const char *fmt, ...) {
    char msg[200], cfg[64]; va_list ap; va_start(ap, fmt); vsnprintf(msg, sizeof msg, fmt, ap); va_end(ap);
    snprintf(cfg, sizeof cfg, "variant=%d mode=%s tld=%d", v, MN[m], t);
    mc_violation(n > MC_CASEMAX ? "noreplay-long-input" : corpus_name(CURPH), why, "", cfg, s, n, "%s", msg);
}
static int is20(int c) { return c && strchr("#^`{|}~", c) != NULL; }
/* does L contain an RFC 20 character outside quotes?  -1: cannot tell (reference automaton died before it) */
static int rfc20_outside_quotes(const unsigned char *L, size_t ln, int *anywhere) {
    int st = G_START, found = 0; *anywhere = 0;
    for (size_t i = 0; i < ln; i++) if (is20(L[i])) *anywhere = 1;
    for (size_t i = 0; i < ln; i++) {
        int g = st & 0xff;
        if (g == G_DEAD) return found ? 1 : -1;
        if (is20(L[i]) && ((st >> 8) & 0xf) == 0 && (g == G_START || g == G_WSTART || g == G_ATOM || g == G_AQ)) found = 1;
        st = ref_step(st, L[i], RM_6531, 0, 1);
    }
    return found;
}

static void sink(const unsigned char *s, size_t n, void *arg) {
    (void)arg; static char buf[70100]; if (n + 8 > sizeof buf) return;
    for (size_t i = 0; i < n; i++) if (!s[i]) return;
    memcpy(buf, s, n); buf[n] = 0;
    mc_current(corpus_name(CURPH), "", s, n); MC_ADD(C_ADDR, 1);
    long at = -1; for (long i = (long)n - 1; i >= 0; i--) if (s[i] == '@') { at = i; break; }
    const unsigned char *L = s, *D = at >= 0 ? s + at + 1 : NULL; size_t ln = at >= 0 ? (size_t)at : n, dn = at >= 0 ? n - (size_t)at - 1 : 0;
    int lascii = 1, lctlws = 0; for (size_t i = 0; i < ln; i++) { if (L[i] >= 0x80) lascii = 0; if (L[i] < 0x21 || L[i] == 0x7f) lctlws = 1; }
    int any20, out20 = rfc20_outside_quotes(L, ln, &any20);
    int host = dn && D[0] != '[', has_us = host && memchr(D, '_', dn) != NULL;
    /* mode 6531 judges the IDNA-converted name: compatibility characters such as U+FE4D..U+FE4F, U+FF3F map to '_' */
    int has_us_6531 = has_us;
    if (host && !has_us && dn < 4000) { int hi = 0; for (size_t i = 0; i < dn; i++) if (D[i] >= 0x80) hi = 1;
        if (hi) { char tmp[4001]; memcpy(tmp, D, dn); tmp[dn] = 0; char *a = NULL; if (idn2_to_ascii_8z(tmp, &a, IDN2_NONTRANSITIONAL) == IDN2_OK && a && strchr(a, '_')) has_us_6531 = 1; if (a) free(a); } }
    out_t o[8][4][2];
    for (int v = 0; v < 8; v++) for (int m = 0; m < 4; m++) for (int t = 0; t < 2; t++) o[v][m][t] = call(v, m, buf, n, t);
    for (int v = 1; v < 8; v++) for (int bit = 0; bit < 3; bit++) {
        if (!(v & (1 << bit))) continue;
        int b = v & ~(1 << bit);                    /* the variant with this one option fewer */
        for (int m = 0; m < 4; m++) for (int t = 0; t < 2; t++) {
            out_t x = o[v][m][t], y = o[b][m][t]; int same = (x.rc == y.rc && x.f == y.f);
            if (bit == 1) {          /* + RFC6531_FOLLOW_RFC20 */
                if (m != 3 || !any20) { if (!same) viol("rfc20:leaks-outside-its-scope", v, m, t, s, n, "adding RFC20 to variant %d changed rc %d->%d flags %d->%d although %s", b, y.rc, x.rc, y.f, x.f, m != 3 ? "the mode is not 6531" : "the local part has none of #^`{|}~"); else MC_ADD(C_SAME, 1); }
                else if (y.rc >= 0) {  /* base accepts => local part well formed => quote tracking is reliable */
                    MC_ADD(C_DELTA20, 1);
                    if (out20 == 1 && x.rc >= 0) viol("rfc20:special-char-outside-quotes-still-accepted", v, m, t, s, n, "RFC20 build accepts (rc %d) an address with one of #^`{|}~ outside quotes", x.rc);
                    if (out20 == 0 && !same) viol("rfc20:char-inside-quotes-changed-decision", v, m, t, s, n, "all #^`{|}~ are quoted, but rc %d->%d", y.rc, x.rc);
                } else if (x.rc >= 0) viol("rfc20:accepts-what-the-base-rejects", v, m, t, s, n, "rc %d->%d", y.rc, x.rc);
            } else if (bit == 2) {   /* + LABELS_ALLOW_UNDERSCORE */
                if (!(m == 3 ? has_us_6531 : has_us)) { if (!same) viol("underscore:leaks-outside-its-scope", v, m, t, s, n, "no '_' in a host-name domain, but adding UNDERSCORE to variant %d changed rc %d->%d flags %d->%d", b, y.rc, x.rc, y.f, x.f); else MC_ADD(C_SAME, 1); }
                else if (!t && y.rc != -20 /* EEAV_DOMAIN_INVALID_CHAR */ && y.rc != -2 && y.rc != 0 && x.rc == y.rc) MC_ADD(C_SAME, 1);   /* rejected earlier for another reason (local part, length ...) */
                else if (!t && dn < 4000) {
                    MC_ADD(C_DELTAUS, 1);
                    /* decision of the domain part with '_' as a letter, by the reference */
                    int exp = ref_domain(D, dn, RO_UNDERSCORE); if (m == 3) exp = ref_expect_6531(D, dn, exp, RO_UNDERSCORE);
                    /* only meaningful when the local part is fine: compare the domain verdict through "x@D" */
                    char xb[4200]; xb[0] = 'x'; xb[1] = '@'; memcpy(xb + 2, D, dn); xb[dn + 2] = 0;
                    out_t xd = call(v, m, xb, dn + 2, 0), yd = call(b, m, xb, dn + 2, 0);
                    if ((xd.rc == 0) != (exp == R_ACC)) viol("underscore:decision-differs-from-reference", v, m, t, (unsigned char *)xb, dn + 2, "x@D with '_' allowed: reference %s, UNDERSCORE build rc %d", exp == R_ACC ? "ACCEPT" : "REJECT", xd.rc);
                    if (yd.rc == 0) viol("underscore:base-build-accepts-underscore", b, m, t, (unsigned char *)xb, dn + 2, "a build without UNDERSCORE accepts a host name containing '_'");
                }
            } else {                 /* + RFC6531_FOLLOW_RFC5322 */
                if (m != 3) { if (!same) viol("rfc5322:leaks-into-ascii-mode", v, m, t, s, n, "adding RFC5322 to variant %d changed mode %s: rc %d->%d", b, MN[m], y.rc, x.rc); else MC_ADD(C_SAME, 1); }
                else if (!lascii && !lctlws) { if (!same) viol("rfc5322:changes-non-ascii-local-part-without-ctl-or-ws", v, m, t, s, n, "rc %d->%d flags %d->%d", y.rc, x.rc, y.f, x.f); else MC_ADD(C_SAME, 1); }
            }
        }
        if (bit == 0 && ln > 0 && ln < 4000) {
            /* local-part level: in a RFC5322 build, is_6531_local == is_5322_local on pure-ASCII local parts (RFC20 characters aside) */
            char lb[4001]; memcpy(lb, L, ln); lb[ln] = 0;
            int r6 = VAR[v].local[3](lb, lb + ln), r5 = VAR[v].local[2](lb, lb + ln); MC_ADD(C_EVAL, 2);
            if (lascii && !((v & 2) && any20)) { MC_ADD(C_DELTA5322, 1);
                if ((r6 == 0) != (r5 == 0)) viol("rfc5322:6531-differs-from-5322-on-ascii-local-part", v, 3, 0, L, ln, "variant %d: is_6531_local rc %d, is_5322_local rc %d", v, r6, r5); }
            if (!lascii && !ref_utf8_valid(L, ln) && r6 == 0) viol("rfc5322:malformed-utf8-accepted", v, 3, 0, L, ln, "variant %d: is_6531_local accepts a local part that is not well-formed UTF-8", v);
        }
    }
    /* every build: RFC 6531/6532 have ONE class of non-ASCII characters (UTF8-non-ascii), so the local-part verdict of mode 6531 may not depend on
     * WHICH well-formed non-ASCII characters are used: replace each by U+0416 and the decision stays (holds whatever an option does to the
     * grammar around them; length limits are not the local validator's business) */
    if (!lascii && ln > 0 && ln < 4000 && ref_utf8_valid(L, ln)) {
        char lb[4001], cb[4001]; memcpy(lb, L, ln); lb[ln] = 0; size_t cl = 0;
        for (size_t i = 0; i < ln; ) { if (L[i] < 0x80) { cb[cl++] = (char)L[i++]; continue; } int w = L[i] >= 0xf0 ? 4 : L[i] >= 0xe0 ? 3 : 2; cb[cl++] = (char)0xd0; cb[cl++] = (char)0x96; i += (size_t)w; }
        cb[cl] = 0;
        if (cl != ln || memcmp(lb, cb, ln)) for (int v = 0; v < 8; v++) {
            int r1 = VAR[v].local[3](lb, lb + ln), r2 = VAR[v].local[3](cb, cb + cl); MC_ADD(C_EVAL, 2);
            if ((r1 == 0) != (r2 == 0)) viol("uniform:verdict-depends-on-which-non-ascii-character", v, 3, 0, L, ln, "variant %d: is_6531_local rc %d, but rc %d with every non-ASCII character replaced by U+0416", v, r1, r2);
        }
    }
    /* variant 0 == what the statement calls the default build: the reference with no option (decisions only, tld off) is C01-C04's job */
    if (at > 0 && (any20 || has_us || lctlws)) MC_ADD(C_NONTRIV, 1);
}
static void phase_shard(long shard, void *arg) { (void)arg; corpus_run(CURPH, shard, sink, NULL); }
static int do_replay(void) {
    mc_replay_t r; if (mc_load_replay(mc_replay, &r)) return 2;
    mc_replay_hit = 0; for (int i = 0; i < CP_N; i++) if (!strcmp(r.sub, corpus_name(i))) CURPH = i;
    long at = -1; for (long i = r.len - 1; i >= 0; i--) if (r.in[i] == '@') { at = i; break; }
    sink(r.in, (size_t)r.len, NULL);
    (void)at;
    if (!mc_replay_hit) {      /* local-part level witnesses (they may hold a quoted '@' themselves) */ unsigned char t[MC_CASEMAX + 8]; memcpy(t, r.in, (size_t)r.len); memcpy(t + r.len, "@ok.com", 7); sink(t, (size_t)r.len + 7, NULL); }   /* local-part level witnesses */
    printf("replay %s: %s\n", mc_replay, mc_replay_hit ? "VIOLATION reproduced" : "no violation");
    return mc_replay_hit ? 1 : 0;
}
int main(int argc, char **argv) {
    mc_init(argc, argv, "C17");
    int nv = 0; for (int i = 1; i < argc; i++) if (!strcmp(argv[i], "--var") && i + 1 < argc && nv < 8) load(nv++, argv[++i]);
    if (nv != 8) { fprintf(stderr, "need 8 --var\n"); return 2; }
    CORPUS_DEEP = mc_thorough;
    C_ADDR = mc_counter("addresses"); C_DELTA20 = mc_counter("rfc20_delta_cases"); C_DELTAUS = mc_counter("underscore_delta_cases"); C_DELTA5322 = mc_counter("rfc5322_delta_cases"); C_SAME = mc_counter("must_be_identical_comparisons");
    if (corpus_load()) return 2;
    if (mc_replay) return do_replay();
    int light = 0; for (int i = 1; i < argc; i++) if (!strcmp(argv[i], "--light")) light = 1;
    if (light) {      /* the step that repeats the comparison under another process locale: the corpora in which single bytes vary */
        static const int PL[] = { CP_DOMAIN, CP_BYTES, CP_SUBST, CP_LABELLEN, CP_SHORTLAB, CP_POSN };
        for (unsigned i = 0; i < sizeof PL / sizeof PL[0]; i++) { CURPH = PL[i]; char nm[64]; snprintf(nm, sizeof nm, "%.40s (N=%d)", corpus_name(CURPH), corpus_N(CURPH)); mc_parallel(nm, corpus_shards(CURPH), phase_shard, NULL); }
        return mc_finish();
    }
    static const int PH[] = { CP_LOCAL, CP_EMAIL, CP_DOMAIN, CP_CROSS, CP_BYTES, CP_TLD, CP_LITERAL, CP_LABELLEN, CP_ALTDOT, CP_LONGIDN, CP_MAXLIT, CP_LPXDOM, CP_WHOLEDOM, CP_DEPTH, CP_EMBED, CP_SUBST, CP_SHORTLAB, CP_POSN, CP_WRAP, CP_EDIT, CP_SCALARS };
    for (unsigned i = 0; i < sizeof PH / sizeof PH[0]; i++) { CURPH = PH[i]; char nm[64]; snprintf(nm, sizeof nm, "%.40s (N=%d)", corpus_name(CURPH), corpus_N(CURPH)); mc_parallel(nm, corpus_shards(CURPH), phase_shard, NULL); }
    return mc_finish();
}
