/* shim.c - compiled into one shared object per IDN backend together with the UNMODIFIED library sources
 * (src/*.c + partial/<backend>/*.c).  It gives the history explorer (drv/hist.c) an opaque, backend-independent
 * view of a real eav_t:
 *   - object life cycle on poisoned heap memory, field writes, the five API calls
 *   - canonical serialisation of the WHOLE object (every field the API reads), the allocator ledger and,
 *     for the idnkit build, the resolver-context ledger
 *   - environment control: the IDN conversion is interposed at link time (-Wl,--wrap=idn2_to_ascii_8z for the
 *     idn2 build; the stub API itself for idn / idnkit) so that any libidn2 error code can be injected, with or
 *     without an output buffer; malloc/free of the library are wrapped (-Wl,--wrap=malloc,--wrap=free)
 * All three builds convert with the same libidn2 call, so "given equivalent IDN conversions" holds by construction.
 */
#define _GNU_SOURCE
#include <stdio.h>
#include <stdlib.h>
#include <string.h>
#include <stdint.h>
#define IDN2_SKIP_LIBIDN_COMPAT 1
#include <idn2.h>
#include <eav.h>
#include <eav/auto_tld.h>

/* ------------------------------------------------------------------ allocator ledger */
extern void *__real_malloc(size_t);
extern void __real_free(void *);
#define LMAX 256
#define CMAX 64
/* all mutable state of the shim lives OUTSIDE this shared object's writable segment (mmap'ed at load time), so that the explorer can
 * snapshot / restore / digest that segment and see exactly the LIBRARY's static memory (function-static buffers, file-scope caches) */
#include <sys/mman.h>
struct shim_state {
    int track;
    void *live[LMAX]; int nlive; void *freed[LMAX]; int nfreed;
    int double_free, foreign_free, allocs, frees;
    int inject_code, inject_buf, inject_armed, conversions;
    int ctx_created, ctx_destroyed, ctx_live, ctx_err_destroy_dead, ctx_err_use_dead, ctx_init_calls, create_fail, initialize_fail;
    void *ctx[CMAX]; int nctx; void *ctx_dead[CMAX]; int nctx_dead;
};
static struct shim_state *S;
__attribute__((constructor)) static void shim_ctor(void) { S = mmap(NULL, sizeof *S, PROT_READ | PROT_WRITE, MAP_PRIVATE | MAP_ANONYMOUS, -1, 0); memset(S, 0, sizeof *S); }
#define g_track S->track
#define g_live S->live
#define g_nlive S->nlive
#define g_freed S->freed
#define g_nfreed S->nfreed
#define g_double_free S->double_free
#define g_foreign_free S->foreign_free
#define g_allocs S->allocs
#define g_frees S->frees
#define g_inject_code S->inject_code
#define g_inject_buf S->inject_buf
#define g_inject_armed S->inject_armed
#define g_conversions S->conversions
#define g_ctx_created S->ctx_created
#define g_ctx_destroyed S->ctx_destroyed
#define g_ctx_live S->ctx_live
#define g_ctx_err_destroy_dead S->ctx_err_destroy_dead
#define g_ctx_err_use_dead S->ctx_err_use_dead
#define g_ctx_init_calls S->ctx_init_calls
#define g_create_fail S->create_fail
#define g_initialize_fail S->initialize_fail
#define g_ctx S->ctx
#define g_nctx S->nctx
#define g_ctx_dead S->ctx_dead
#define g_nctx_dead S->nctx_dead

static int find(void **a, int n, void *p) { for (int i = 0; i < n; i++) if (a[i] == p) return i; return -1; }
void *__wrap_malloc(size_t n) {
    void *p = __real_malloc(n);
    if (p) memset(p, 0xA5, n);      /* a field the library forgets to initialise reads as non-zero garbage, deterministically */
    if (S && g_track && p) {
        int i = find(g_freed, g_nfreed, p); if (i >= 0) g_freed[i] = g_freed[--g_nfreed];
        if (g_nlive < LMAX) g_live[g_nlive++] = p;
        g_allocs++;
    }
    return p;
}
void __wrap_free(void *p) {
    if (!p) return;
    if (g_track) {
        int i = find(g_live, g_nlive, p);
        if (i >= 0) { g_live[i] = g_live[--g_nlive]; if (g_nfreed < LMAX) g_freed[g_nfreed++] = p; g_frees++; }
        else if (find(g_freed, g_nfreed, p) >= 0) { g_double_free++; return; }       /* do not really free twice */
        else { g_foreign_free++; return; }                                          /* not ours: do not free (could be wild) */
    }
    __real_free(p);
}
extern char *__real_strndup(const char *, size_t);
char *__wrap_strndup(const char *p, size_t n) { size_t l = strnlen(p, n); char *r = __wrap_malloc(l + 1); if (r) { memcpy(r, p, l); r[l] = 0; } return r; }
char *__wrap_strdup(const char *p) { return __wrap_strndup(p, strlen(p)); }
void *__wrap_calloc(size_t a, size_t b) { void *r = __wrap_malloc(a * b); if (r) memset(r, 0, a * b); return r; }
void shim_ledger_reset(void) {
    for (int i = 0; i < g_nlive; i++) __real_free(g_live[i]);
    g_nlive = g_nfreed = 0; g_double_free = g_foreign_free = g_allocs = g_frees = 0;
}
int shim_ledger_live(void) { return g_nlive; }
int shim_ledger_double_free(void) { return g_double_free; }
int shim_ledger_foreign_free(void) { return g_foreign_free; }

/* ------------------------------------------------------------------ conversion seam + fault injection */
void shim_inject(int code, int with_buffer) { g_inject_code = code; g_inject_buf = with_buffer; g_inject_armed = 1; }
void shim_disarm(void) { g_inject_armed = 0; }
int shim_conversions(void) { return g_conversions; }
int shim_inject_pending(void) { return g_inject_armed; }

#ifdef HAVE_LIBIDN2
extern int __real_idn2_to_ascii_8z(const char *input, char **output, int flags);
#define REAL_CONV __real_idn2_to_ascii_8z
#else
#define REAL_CONV idn2_to_ascii_8z
#endif
/* one conversion: the real libidn2 answer, or the injected environment answer; output in ledger-tracked memory */
static int g_conv_flags = IDN2_NONTRANSITIONAL;     /* the flags the library passed (idn2 back end); the stand-ins for libidn / idnkit use the default */
static int conv(const char *in, char **out) {
    g_conversions++;
    if (g_inject_armed) {
        g_inject_armed = 0;
        if (g_inject_buf) { char *b = __wrap_malloc(16); strcpy(b, "injected.buffer"); *out = b; }
        return g_inject_code;
    }
    char *tmp = NULL;
    int saved = g_track; g_track = 0;
    int r = REAL_CONV(in, &tmp, g_conv_flags);
    g_track = saved;
    if (tmp) {
        size_t l = strlen(tmp) + 1; char *b = __wrap_malloc(l); memcpy(b, tmp, l); *out = b;
        g_track = 0; idn2_free(tmp); g_track = saved;
    }
    return r;
}
#ifdef HAVE_LIBIDN2
int __wrap_idn2_to_ascii_8z(const char *input, char **output, int flags) { g_conv_flags = flags; int r = conv(input, output); g_conv_flags = IDN2_NONTRANSITIONAL; return r; }
/* the other public doors to the same converter (idn2_to_ascii_8z is idn2_lookup_u8 with the input-normalisation flag added): a library that goes
 * through one of them must meet the same environment - injected answers, ledger-tracked output - or the fault checks would pass vacuously */
extern int __real_idn2_lookup_u8(const uint8_t *src, uint8_t **lookupname, int flags);
extern int __real_idn2_lookup_ul(const char *src, char **lookupname, int flags);
extern int __real_idn2_to_ascii_lz(const char *input, char **output, int flags);
#define OTHER_DOOR(call) do { g_conversions++; \
    if (g_inject_armed) { g_inject_armed = 0; if (g_inject_buf && out) { char *b = __wrap_malloc(16); strcpy(b, "injected.buffer"); *out = b; } return g_inject_code; } \
    char *tmp = NULL; int saved = g_track; g_track = 0; int r = call; g_track = saved; \
    if (tmp) { size_t l = strlen(tmp) + 1; char *b = __wrap_malloc(l); memcpy(b, tmp, l); if (out) *out = b; g_track = 0; idn2_free(tmp); g_track = saved; } \
    return r; } while (0)
int __wrap_idn2_lookup_u8(const uint8_t *src, uint8_t **lookupname, int flags) { char **out = (char **)lookupname; OTHER_DOOR(__real_idn2_lookup_u8(src, (uint8_t **)&tmp, flags)); }
int __wrap_idn2_lookup_ul(const char *src, char **out, int flags) { OTHER_DOOR(__real_idn2_lookup_ul(src, &tmp, flags)); }
int __wrap_idn2_to_ascii_lz(const char *src, char **out, int flags) { OTHER_DOOR(__real_idn2_to_ascii_lz(src, &tmp, flags)); }
/* idn2_free() is the documented way to release the converter's output: it has to reach the ledger like free() does */
void __wrap_idn2_free(void *p) { if (g_track) __wrap_free(p); else { extern void __real_idn2_free(void *); __real_idn2_free(p); } }
#endif
#ifdef HAVE_LIBIDN
int idna_to_ascii_lz(const char *input, char **output, int flags) { (void)flags; return conv(input, output); }
const char *idna_strerror(int rc) { return idn2_strerror(rc); }
#endif

/* ------------------------------------------------------------------ idnkit resolver ledger */
void shim_ctx_reset(void) { for (int i = 0; i < g_nctx; i++) __real_free(g_ctx[i]); g_nctx = g_nctx_dead = 0;
    g_ctx_created = g_ctx_destroyed = g_ctx_live = g_ctx_err_destroy_dead = g_ctx_err_use_dead = g_ctx_init_calls = 0; g_create_fail = g_initialize_fail = 0; }
int shim_ctx_live(void) { return g_nctx; }
int shim_ctx_created(void) { return g_ctx_created; }
int shim_ctx_destroyed(void) { return g_ctx_destroyed; }
int shim_ctx_errors(void) { return g_ctx_err_destroy_dead * 1000 + g_ctx_err_use_dead; }
void shim_ctx_fail_next(int create, int initialize) { g_create_fail = create; g_initialize_fail = initialize; }
#ifdef HAVE_IDNKIT
idn_result_t idn_resconf_initialize(void) { g_ctx_init_calls++; if (g_initialize_fail) { g_initialize_fail = 0; return IDN2_MALLOC; } return idn_success; }
idn_result_t idn_resconf_create(idn_resconf_t *ctx) {
    if (g_create_fail) { g_create_fail = 0; return IDN2_MALLOC; }
    void *p = __real_malloc(8);
    int i = find(g_ctx_dead, g_nctx_dead, p); if (i >= 0) g_ctx_dead[i] = g_ctx_dead[--g_nctx_dead];
    if (g_nctx < CMAX) g_ctx[g_nctx++] = p;
    g_ctx_created++; *ctx = p; return idn_success;
}
void idn_resconf_destroy(idn_resconf_t ctx) {
    int i = find(g_ctx, g_nctx, ctx);
    if (i < 0) { g_ctx_err_destroy_dead++; return; }
    g_ctx[i] = g_ctx[--g_nctx]; if (g_nctx_dead < CMAX) g_ctx_dead[g_nctx_dead++] = ctx;
    g_ctx_destroyed++; __real_free(ctx);
}
idn_result_t idn_res_encodename(idn_resconf_t ctx, idn_action_t actions, const char *from, char *to, size_t tolen) {
    (void)actions;
    if (find(g_ctx, g_nctx, ctx) < 0) { g_ctx_err_use_dead++; }
    char *out = NULL; int r = conv(from, &out);
    if (out) {
        if (r == IDN2_OK) { if (strlen(out) + 1 > tolen) r = IDN2_TOO_BIG_DOMAIN; else strcpy(to, out); }
        __wrap_free(out);
    }
    return r;
}
const char *idn_result_tostring(idn_result_t r) { return idn2_strerror(r); }
#endif

/* ------------------------------------------------------------------ object access */
const char *shim_backend(void) {
#if defined HAVE_LIBIDN2
    return "idn2";
#elif defined HAVE_LIBIDN
    return "idn";
#else
    return "idnkit";
#endif
}
void *shim_new(int poison) { eav_t *e = __real_malloc(sizeof *e); if (poison >= 0) memset(e, poison, sizeof *e); return e; }
void shim_delete(void *o) { __real_free(o); }
void shim_init(void *o) { g_track = 1; eav_init(o); g_track = 0; }
void shim_free(void *o) { g_track = 1; eav_free(o); g_track = 0; }
int shim_setup(void *o) { g_track = 1; int r = eav_setup(o); g_track = 0; return r; }
#ifndef HAVE_IDNKIT
/* the per-part validator as tests/ and other direct callers use it (one int shared across calls) */
int shim_utf8_domain(int *r, const char *s, size_t n, int tld) { g_track = 1; int rc = is_utf8_domain(r, s, s + n, tld ? true : false); g_track = 0; return rc; }
#endif
int shim_is_email(void *o, const char *s, size_t n) { g_track = 1; int r = eav_is_email(o, s, n); g_track = 0; return r; }
const char *shim_errstr(void *o) { g_track = 1; const char *m = eav_errstr(o); g_track = 0; return m; }
void shim_set_rfc(void *o, int v) { ((eav_t *)o)->rfc = (EAV_RFC)v; }
void shim_set_tld(void *o, int v) { ((eav_t *)o)->tld_check = v ? true : false; }
void shim_set_mask(void *o, int v) { ((eav_t *)o)->allow_tld = v; }
int shim_get_errcode(void *o) { return ((eav_t *)o)->errcode; }
int shim_result_rc(void *o) { eav_t *e = o; return e->result ? e->result->rc : 12345; }

static const char *cbname(void *p) {
    if (p == NULL) return "null";
    if (p == (void *)is_822_email) return "is_822_email";
    if (p == (void *)is_5321_email) return "is_5321_email";
    if (p == (void *)is_5322_email) return "is_5322_email";
    if (p == (void *)is_6531_email) return "is_6531_email";
    return "WILD";
}
static const char *msgname(const char *m, char *tmp, size_t cap) {
    if (m == NULL) return "null";
    for (int c = 0; c >= -400; c--) if (m == idn2_strerror(c)) { snprintf(tmp, cap, "idn2_strerror(%d)", c); return tmp; }
    return "WILD";
}
static int res_str(eav_t *e, char *out, size_t cap) {
    if (e->result == NULL) return snprintf(out, cap, "null");
    if (find(g_live, g_nlive, e->result) < 0) return snprintf(out, cap, "DANGLING");
    return snprintf(out, cap, "{v4=%d v6=%d dom=%d rc=%d idn_rc=%d}", *(unsigned char *)&e->result->is_ipv4, *(unsigned char *)&e->result->is_ipv6,
                    *(unsigned char *)&e->result->is_domain, e->result->rc, (int)e->result->idn_rc);
}
/* every field the API reads, by value; pointers by what they point to */
int shim_canon(void *o, char *out, size_t cap) {
    eav_t *e = o; char r[128], t[48];
    res_str(e, r, sizeof r);
    int n = snprintf(out, cap, "rfc=%d mask=%d tld=%d utf8=%d err=%d init=%d ucb=%s acb=%s idnmsg=%s res=%s live=%d",
                     (int)e->rfc, e->allow_tld, *(unsigned char *)&e->tld_check, *(unsigned char *)&e->utf8, e->errcode, *(unsigned char *)&e->initialized,
                     cbname((void *)e->utf8_cb), cbname((void *)e->ascii_cb), msgname(e->idnmsg, t, sizeof t), r, g_nlive);
#ifdef HAVE_IDNKIT
    /* the context pointer is only meaningful while 'initialized' is set */
    n += snprintf(out + n, cap - (size_t)n, " actions=%d ctx=%s", (int)e->actions,
                  *(unsigned char *)&e->initialized ? (find(g_ctx, g_nctx, e->idn) >= 0 ? "live" : "DEAD") : "-");
#endif
    return n;
}
/* what a caller can observe after eav_is_email */
int shim_outcome(void *o, int ret, char *out, size_t cap) {
    eav_t *e = o; char r[128]; res_str(e, r, sizeof r);
    const char *m = (e->errcode >= 0 && e->errcode < EEAV_MAX) ? shim_errstr(o) : "(errcode out of range)";
    return snprintf(out, cap, "ret=%d errcode=%d msg=\"%s\" res=%s", ret, e->errcode, m ? m : "(null)", r);
}
