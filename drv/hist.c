/* hist.c - E-HIST: explicit-state breadth-first search over API histories of a real eav_t.
 *
 * Every transition is a real library call on a real object (through drv/shim.c, one shared object per IDN
 * backend).  A state is represented by the history that first reached it and is rebuilt by replay on a fresh,
 * poisoned object; states are deduplicated by the canonical serialisation of the whole object (+ the harness's
 * model variables), so the search runs to a FIXPOINT: the complete reachable state space for the operation menu.
 *
 *   --prop C13   history independence: every eav_is_email outcome == outcome of a fresh object with the confirmed
 *                mode and current settings; errstr stable; one live result record; eav_free releases everything;
 *                free+init == first init; poison differential (uninitialised fields)
 *   --prop C19   the same search with environment answers: any libidn2 error code injected into the conversion,
 *                with/without an output buffer (deviation bound 2 per history) + single/double fault runs
 *   --prop C18   three backends (idn2, idn-stub, idnkit-stub) advanced in lock-step; outcomes equal at every step;
 *                resolver-context ledger invariants; idnkit-only search with injected create/initialize failures
 *   --prop C15   eav_setup clause: return value and eav_errstr for every rfc value class
 */
#include "corpus.h"
#include <idn2.h>
#include <errno.h>
#include <dlfcn.h>
#include <limits.h>
#include <link.h>

/* ---------------------------------------------------------------- backend handle */
typedef struct {
    void *h; const char *name;
    void *(*new_)(int); void (*delete_)(void *); void (*init)(void *); void (*free_)(void *);
    int (*setup)(void *); int (*is_email)(void *, const char *, size_t); const char *(*errstr)(void *);
    void (*set_rfc)(void *, int); void (*set_tld)(void *, int); void (*set_mask)(void *, int);
    int (*canon)(void *, char *, size_t); int (*outcome)(void *, int, char *, size_t);
    void (*ledger_reset)(void); int (*ledger_live)(void); int (*ledger_double_free)(void); int (*ledger_foreign_free)(void);
    void (*inject)(int, int); void (*disarm)(void); int (*conversions)(void); int (*inject_pending)(void);
    void (*ctx_reset)(void); int (*ctx_live)(void); int (*ctx_created)(void); int (*ctx_destroyed)(void); int (*ctx_errors)(void);
    void (*ctx_fail_next)(int, int);
    int (*get_errcode)(void *);
    int (*utf8_domain)(int *, const char *, size_t, int);   /* NULL on the idnkit build (context argument) */
} lib_t;
static lib_t LIB[3]; static int NLIB;
/* the writable static memory of each backend library (minus RELRO) is snapshotted after loading and restored before every run and
 * before every fresh-object computation: state hidden in a function-static buffer or a file-scope cache then shows up as a
 * dependence on the history instead of silently leaking into the "fresh" reference */
typedef struct { unsigned char *p; size_t n; unsigned char *snap; } seg_t;
static seg_t SEG[3][8]; static int NSEG[3]; static const char *g_segpath; static int g_segli;
static int seg_cb(struct dl_phdr_info *info, size_t size, void *data) {
    (void)size; (void)data;
    if (!info->dlpi_name || !g_segpath || strcmp(info->dlpi_name, g_segpath)) return 0;
    uintptr_t rlo = 0, rhi = 0;
    for (int i = 0; i < info->dlpi_phnum; i++) if (info->dlpi_phdr[i].p_type == PT_GNU_RELRO) { rlo = info->dlpi_addr + info->dlpi_phdr[i].p_vaddr; rhi = rlo + info->dlpi_phdr[i].p_memsz; }
    for (int i = 0; i < info->dlpi_phnum; i++) {
        const ElfW(Phdr) *ph = &info->dlpi_phdr[i]; if (ph->p_type != PT_LOAD || !(ph->p_flags & PF_W)) continue;
        uintptr_t lo = info->dlpi_addr + ph->p_vaddr, hi = lo + ph->p_memsz;
        if (rhi > lo && rlo <= lo) lo = rhi < hi ? rhi : hi;
        if (hi > lo && NSEG[g_segli] < 8) { seg_t *g = &SEG[g_segli][NSEG[g_segli]++]; g->p = (unsigned char *)lo; g->n = hi - lo; g->snap = malloc(g->n); memcpy(g->snap, g->p, g->n); }
    }
    return 0;
}
static void lib_restore_statics(int li) { for (int i = 0; i < NSEG[li]; i++) memcpy(SEG[li][i].p, SEG[li][i].snap, SEG[li][i].n); }
#define SYM(l, f, n) do { *(void **)&(l)->f = dlsym((l)->h, n); if (!(l)->f) { fprintf(stderr, "dlsym %s: %s\n", n, dlerror()); exit(2); } } while (0)
static void load_lib(const char *path) {
    lib_t *l = &LIB[NLIB++]; l->h = dlopen(path, RTLD_NOW | RTLD_LOCAL);
    if (!l->h) { fprintf(stderr, "dlopen %s: %s\n", path, dlerror()); exit(2); }
    SYM(l, new_, "shim_new"); SYM(l, delete_, "shim_delete"); SYM(l, init, "shim_init"); SYM(l, free_, "shim_free"); SYM(l, setup, "shim_setup");
    *(void **)&l->utf8_domain = dlsym(l->h, "shim_utf8_domain");
    SYM(l, is_email, "shim_is_email"); SYM(l, errstr, "shim_errstr"); SYM(l, set_rfc, "shim_set_rfc"); SYM(l, set_tld, "shim_set_tld"); SYM(l, set_mask, "shim_set_mask");
    SYM(l, canon, "shim_canon"); SYM(l, outcome, "shim_outcome"); SYM(l, ledger_reset, "shim_ledger_reset"); SYM(l, ledger_live, "shim_ledger_live");
    SYM(l, ledger_double_free, "shim_ledger_double_free"); SYM(l, ledger_foreign_free, "shim_ledger_foreign_free"); SYM(l, inject, "shim_inject"); SYM(l, disarm, "shim_disarm");
    SYM(l, conversions, "shim_conversions"); SYM(l, inject_pending, "shim_inject_pending"); SYM(l, ctx_reset, "shim_ctx_reset"); SYM(l, ctx_live, "shim_ctx_live");
    SYM(l, ctx_created, "shim_ctx_created"); SYM(l, ctx_destroyed, "shim_ctx_destroyed"); SYM(l, ctx_errors, "shim_ctx_errors"); SYM(l, ctx_fail_next, "shim_ctx_fail_next");
    SYM(l, get_errcode, "shim_get_errcode");
    const char *(*be)(void) = (const char *(*)(void))dlsym(l->h, "shim_backend"); l->name = be ? be() : "?";
    { struct link_map *lm = NULL; if (dlinfo(l->h, RTLD_DI_LINKMAP, &lm) == 0 && lm) { g_segpath = lm->l_name; g_segli = NLIB - 1; dl_iterate_phdr(seg_cb, NULL); } }
}

/* ---------------------------------------------------------------- operation menu */
enum { OP_RFC = 1, OP_TLD, OP_MASK, OP_SETUP, OP_FREEINIT, OP_EMAIL, OP_EMAILF, OP_SETUPF, OP_OTHER };
typedef struct { unsigned char t, a, b, c; } op_t;       /* type, arg, fault code index, with-buffer */
static const int RFCV[6] = { 0, 1, 2, 3, 4, -1 };
#define M_DEFAULT (8|16|32|64|128|512)
static const int MASKV[4] = { M_DEFAULT, M_DEFAULT & ~512, 4 | 1024, 0 };
static size_t POOLLEN[22];   /* 0 = strlen */
static size_t plen(int a);
static const char *POOL[22] = {
    "simple@test.com", "\"a\x01" "b\"@ok.com", "\xd0\xb6@ok.com", "a@ab--cd.com", "a@host.zzzzq", "a@example.com", "a@[192.0.2.1]", "",
    "a@\xe2\x99\xa5.de", "a@singlelabel", "a@[IPv6:2001:db8::1]", "aaaaaaaaaaaaaaaaaaaaaaaaaaaaaaaaaaaaaaaaaaaaaaaaaaaaaaaaaaaaaaaaa@ok.com",
    "a@b.abarth", "a@\xd0\xbf\xd0\xbe\xd1\x87\xd1\x82\xd0\xb0.\xd1\x80\xd1\x84", "\"a b\"@ok.com", "a@-bad.com" };
static int NPOOL = 8, NMASK = 3;
static int PIDX[22] = { 0, 1, 2, 3, 4, 5, 6, 7, 8, 9, 10, 11, 12, 13, 14, 15, 16, 17, 18, 19, 20, 21 };   /* which pool entries the menu uses */
/* pool entries 16..19 are long: two U-label domains of > 255 UTF-8 bytes sharing their first 255 bytes (valid / unlisted TLD),
 * an address of > 320 bytes, a single label of 300 characters */
static size_t plen(int a) { return POOLLEN[a] ? POOLLEN[a] : strlen(POOL[a]); }
static char LONGA[4][1200];
static void build_long_pool(void) {
    char P[900]; int l = 0;
    for (int k = 0; k < 5; k++) { for (int i = 0; i < 30; i++) { P[l++] = (char)0xd0; P[l++] = (char)(0xb0 + (i + 3 * k) % 16); } P[l++] = '.'; }
    P[l] = 0;
    snprintf(LONGA[0], sizeof LONGA[0], "user@%scom", P); snprintf(LONGA[1], sizeof LONGA[1], "user@%szzzzq", P);
    { char *q = LONGA[2]; q += sprintf(q, "someone@"); for (int k = 0; k < 6; k++) { for (int i = 0; i < 55; i++) *q++ = (char)('a' + (i + k) % 26); *q++ = '.'; } strcpy(q, "com"); }
    { char *q = LONGA[3]; q += sprintf(q, "x@"); for (int i = 0; i < 300; i++) *q++ = 'a'; *q = 0; }
    for (int i = 0; i < 4; i++) POOL[16 + i] = LONGA[i];
    /* two addresses handed over with a length that stops before the buffer's terminator (a line still carrying its line end):
     * outside the documented length == strlen contract, used only differentially (reused object vs fresh object, ledger) */
    POOL[20] = "someone@department.example.com\n"; POOLLEN[20] = strlen(POOL[20]) - 1;
    POOL[21] = "user@bb.zz\r\n"; POOLLEN[21] = strlen(POOL[21]) - 2;
}
static const int IDNCODES[] = { -100, -101, -102, -200, -201, -202, -203, -204, -205, -206, -207, -208, -209, -300, -301, -302, -303, -304, -305, -306, -307,
                                -308, -309, -310, -311, -312, -313, -314, -1, -2, -999 };
#define NCODES ((int)(sizeof IDNCODES / sizeof IDNCODES[0]))
static int MAXDEPTH = 40, NOPOISON = 0;
static int FAULTS = 0;          /* C19: fault-carrying transitions enabled */
static int FAULT_BOUND = 2;
static int CTXFAIL = 0;         /* C18: idnkit-only, create/initialize failures enabled */
static const char *PROP = "C13";
static int NPOISON = 2; static const int POISON[4] = { 0x00, 0xA5, 0xFF, 0x5A };

static void op_str(op_t o, char *out, size_t cap) {
    switch (o.t) {
    case OP_RFC: snprintf(out, cap, "rfc:=%d", RFCV[o.a]); break;
    case OP_TLD: snprintf(out, cap, "tld_check:=%d", o.a); break;
    case OP_MASK: snprintf(out, cap, "allow_tld:=0x%x", MASKV[o.a]); break;
    case OP_SETUP: snprintf(out, cap, "eav_setup"); break;
    case OP_SETUPF: snprintf(out, cap, "eav_setup[%s fails]", o.a ? "idn_resconf_initialize" : "idn_resconf_create"); break;
    case OP_FREEINIT: snprintf(out, cap, "eav_free;eav_init"); break;
    case OP_EMAIL: snprintf(out, cap, "eav_is_email(#%d)", o.a); break;
    case OP_OTHER: snprintf(out, cap, "OTHER-OBJECT.eav_is_email(#%d)", o.a); break;
    case OP_EMAILF: snprintf(out, cap, "eav_is_email(#%d)[idn:=%d%s]", o.a, IDNCODES[o.b], o.c ? "+buf" : ""); break;
    default: snprintf(out, cap, "?"); }
}
#define HMAX 40
typedef struct { op_t op[HMAX]; int n; } hist_t;
static void hist_str(const hist_t *h, char *out, size_t cap) {
    size_t l = 0; out[0] = 0;
    for (int i = 0; i < h->n && l + 64 < cap; i++) { char t[64]; op_str(h->op[i], t, sizeof t); l += (size_t)snprintf(out + l, cap - l, "%s%s", i ? " ; " : "", t); }
}

/* ---------------------------------------------------------------- harness-side model (boring on purpose) */
/* the three settings are the caller's: "rfc=.. mask=.. tld=.." as the object holds them */
static void settings_of(lib_t *l, void *o, char *out, size_t cap) { char k[1024]; l->canon(o, k, sizeof k); char *q = strstr(k, " utf8="); if (q) *q = 0; snprintf(out, cap, "%s", k); }
typedef struct { int confirmed; int rfc, tld, mask; int setup_ok; int nfaults; int utf8_pending_fail; } model_t;
static void model_init(model_t *m) { m->confirmed = -1; m->rfc = 3; m->tld = 1; m->mask = 0; m->setup_ok = 0; m->utf8_pending_fail = 0; }

typedef struct { void *obj[3]; void *other[3]; model_t m; int bad; char out[3][512]; } run_t;
static int TWO_OBJECTS = 0;    /* a second, independent object (mode 6531, defaults) is validated in between */

static void violation_h(const char *sub, const char *why, const hist_t *h, const char *fmt, ...) {
    char msg[200], hs[MC_CASEMAX]; va_list ap; va_start(ap, fmt); vsnprintf(msg, sizeof msg, fmt, ap); va_end(ap);
    hist_str(h, hs, sizeof hs);
    /* the replayable artefact is the op list itself (4 bytes per op) */
    mc_violation(sub, why, "", hs, h->op, (size_t)h->n * sizeof(op_t), "%s", msg);
}

/* expected outcome of eav_is_email on a FRESH object (differential oracle) */
static char *FRESH[3][4][2][4][22][2 + 2 * 40];   /* lib, mode, tld, mask, addr, fault slot */
static int fresh_filling;
static const char *fresh_outcome(int li, int mode, int tld, int mi, int ai, int fslot, op_t fop) {
    char **slot = &FRESH[li][mode][tld][mi][ai][fslot];
    if (*slot) return *slot;
    if (!fresh_filling) { fprintf(stderr, "fresh outcome table incomplete\n"); exit(2); }   /* never disturb the ledgers in the middle of a run */
    lib_t *l = &LIB[li];
    l->ledger_reset(); l->ctx_reset(); lib_restore_statics(li);
    void *o = l->new_(0x00); l->init(o); l->set_rfc(o, mode); l->set_tld(o, tld); l->set_mask(o, MASKV[mi]);
    if (l->setup(o) != 0) { fprintf(stderr, "fresh setup failed\n"); exit(2); }
    if (fslot) l->inject(IDNCODES[fop.b], fop.c);
    errno = 0; int ret = l->is_email(o, POOL[ai], plen(ai));
    l->disarm();
    char buf[512]; l->outcome(o, ret, buf, sizeof buf);
    l->free_(o); l->delete_(o); l->ledger_reset(); l->ctx_reset();
    *slot = strdup(buf);
    return *slot;
}
static int fault_slot(op_t o) { return o.t == OP_EMAILF ? 1 + o.b * 2 + o.c : 0; }
static void fresh_precompute(void) {
    fresh_filling = 1;
    for (int li = 0; li < NLIB; li++) for (int mode = 0; mode < 4; mode++) for (int tld = 0; tld < 2; tld++) for (int mi = 0; mi < 4; mi++) for (int ai = 0; ai < 22; ai++) {
        op_t o = { OP_EMAIL, (unsigned char)ai, 0, 0 };
        fresh_outcome(li, mode, tld, mi, ai, 0, o);
        if (mode == 3) for (int c = 0; c < NCODES; c++) for (int b = 0; b < 2; b++) { op_t f = { OP_EMAILF, (unsigned char)ai, (unsigned char)c, (unsigned char)b }; fresh_outcome(li, mode, tld, mi, ai, fault_slot(f), f); }
    }
    fresh_filling = 0;
}

static int C_STATES, C_TRANS, C_REPLAYS, C_EMAILT, C_LIBCALLS, C_OUTCOMES;
static int check_invariants = 1;

/* apply one op to the live objects; checks the per-transition invariants when 'check' */
static void apply(run_t *r, op_t o, const hist_t *h, int check) {
    model_t *m = &r->m;
    for (int li = 0; li < NLIB; li++) {
        lib_t *l = &LIB[li]; void *obj = r->obj[li];
        switch (o.t) {
        case OP_RFC: l->set_rfc(obj, RFCV[o.a]); break;
        case OP_TLD: l->set_tld(obj, o.a); break;
        case OP_MASK: l->set_mask(obj, MASKV[o.a]); break;
        case OP_SETUP: case OP_SETUPF: {
            if (o.t == OP_SETUPF) l->ctx_fail_next(o.a == 0, o.a == 1);
            int rc = l->setup(obj); MC_ADD(C_LIBCALLS, 1);
            l->ctx_fail_next(0, 0);
            int valid = (m->rfc >= 0 && m->rfc <= 3);
            int will_fail_ctx = (o.t == OP_SETUPF && m->rfc == 3 && !strcmp(l->name, "idnkit") && l->ctx_live() == 0 && !(m->confirmed == 3 && m->setup_ok && 0));
            if (check) {
                const char *msg = l->errstr(obj);
                if (!valid) {
                    if (rc != 1 /* EEAV_INVALID_RFC */) violation_h("setup", "setup:invalid-rfc-return-value", h, "[%s] eav_setup with rfc=%d returned %d, documented EEAV_INVALID_RFC(1)", l->name, m->rfc, rc);
                    if (!strcmp(PROP, "C15") || !strcmp(PROP, "C13"))
                        if (!msg || strcmp(msg, "invalid RFC specified") != 0)
                            violation_h("setup", "setup:invalid-rfc-errstr", h, "[%s] eav_setup rejected rfc=%d but eav_errstr says \"%s\"", l->name, m->rfc, msg ? msg : "(null)");
                } else if (rc != 0 && !will_fail_ctx && o.t != OP_SETUPF)
                    violation_h("setup", "setup:valid-rfc-nonzero", h, "[%s] eav_setup with rfc=%d returned %d", l->name, m->rfc, rc);
            }
            if (li == NLIB - 1) {
                if (valid) {
                    /* a context failure leaves the object without a usable 6531 setup */
                    int failed = (o.t == OP_SETUPF && m->rfc == 3 && rc != 0);
                    if (failed) { m->setup_ok = 0; m->utf8_pending_fail = 1; }
                    else { m->confirmed = m->rfc; m->setup_ok = 1; m->utf8_pending_fail = 0; }
                }
            }
        } break;
        case OP_FREEINIT: {
            /* "eav_errstr always describes the most recent eav_is_email call": also between eav_free and the re-initialisation (the usual
             * clean-up-then-report order) */
            char mb[256]; const char *m0 = l->errstr(obj); snprintf(mb, sizeof mb, "%s", m0 ? m0 : "(null)");
            l->free_(obj); MC_ADD(C_LIBCALLS, 1);
            if (check && m->confirmed >= 0) { const char *m1 = l->errstr(obj);
                if (strcmp(mb, m1 ? m1 : "(null)")) violation_h("free", "free:errstr-changed-by-eav_free", h, "[%s] eav_errstr said \"%s\" before eav_free and \"%s\" after it", l->name, mb, m1 ? m1 : "(null)"); }
            if (check) {
                if (l->ledger_live() > (TWO_OBJECTS ? 1 : 0)) violation_h("free", "free:allocation-not-released", h, "[%s] %d allocation(s) live after eav_free", l->name, l->ledger_live());
                if (l->ctx_live() != 0) violation_h("free", "free:resolver-context-not-released", h, "[%s] %d resolver context(s) live after eav_free", l->name, l->ctx_live());
            }
            l->init(obj); MC_ADD(C_LIBCALLS, 1);
        } break;
        case OP_OTHER: {
            char before[1024], after[1024], got[512];
            l->canon(obj, before, sizeof before);
            const char *a = POOL[o.a];
            int ret = l->is_email(r->other[li], a, plen(o.a)); MC_ADD(C_LIBCALLS, 1);
            l->canon(obj, after, sizeof after);
            if (check) {
                /* 'live=' counts all blocks of the process: mask it (the other object owns one) */
                char *p1 = strstr(before, " live="), *p2 = strstr(after, " live="); if (p1) *p1 = 0; if (p2) *p2 = 0;
                if (strcmp(before, after)) violation_h("other", "other-object:call-changed-this-object", h, "[%s] validating on ANOTHER eav_t changed this one: %s -> %s", l->name, before, after);
                l->outcome(r->other[li], ret, got, sizeof got);
                const char *want = fresh_outcome(li, 3, 1, 0, o.a, 0, (op_t){ OP_EMAIL, o.a, 0, 0 });
                if (strcmp(got, want)) violation_h("other", "other-object:outcome-depends-on-first-object", h, "[%s] second object: %s ; fresh object: %s", l->name, got, want);
            }
        } break;
        case OP_EMAIL: case OP_EMAILF: {
            if (o.t == OP_EMAILF) l->inject(IDNCODES[o.b], o.c);
            const char *a = POOL[o.a];
            char set0[128], set1[128]; if (check) settings_of(l, obj, set0, sizeof set0);
            errno = (h->n % 2) ? ERANGE : 0;     /* the caller's errno alternates with the history length: it must not matter */
            int ret = l->is_email(obj, a, plen(o.a)); MC_ADD(C_LIBCALLS, 1);
            if (check) { settings_of(l, obj, set1, sizeof set1); if (strcmp(set0, set1)) violation_h("email", "email:validation-changed-the-caller's-settings", h, "[%s] before eav_is_email: %s ; after: %s", l->name, set0, set1); }
            int consumed = !l->inject_pending();
            l->disarm();   /* the call may not have converted at all */
            if (check) {
                char got[512]; l->outcome(obj, ret, got, sizeof got);
                /* the injected answer is only part of the expectation when a conversion happened */
                op_t eff = o; if (o.t == OP_EMAILF && !consumed) eff.t = OP_EMAIL;
                int mi = m->mask;
                const char *want = fresh_outcome(li, m->confirmed, m->tld, mi, o.a, fault_slot(eff), eff);
                MC_ADD(C_EMAILT, 1);
                if (strcmp(got, want) != 0)
                    violation_h("email", o.t == OP_EMAILF ? "email:outcome-differs-from-fresh-object(after-fault)" : "email:outcome-differs-from-fresh-object", h,
                                "[%s] reused object: %s ; fresh object with the same confirmed mode/settings: %s", l->name, got, want);
                /* errstr is stable */
                const char *m1 = l->errstr(obj), *m2 = l->errstr(obj);
                if (m1 != m2) violation_h("email", "errstr:not-stable", h, "[%s] two eav_errstr calls returned different pointers", l->name);
                snprintf(r->out[li], sizeof r->out[li], "%s", got);
                if (li > 0 && strcmp(r->out[0], got) != 0)
                    violation_h("lockstep", "backend:outcome-differs", h, "[%s] %s ; [%s] %s", LIB[0].name, r->out[0], l->name, got);
                if (o.t == OP_EMAILF && consumed) {
                    /* C19: contained */
                    char exp[64]; snprintf(exp, sizeof exp, "ret=0 errcode=2 ");
                    if (strncmp(got, exp, strlen(exp)) != 0) violation_h("fault", "fault:not-rejected-with-idn-error", h, "[%s] injected idn code %d: %s", l->name, IDNCODES[o.b], got);
                    if (!strstr(got, "v4=0 v6=0 dom=0")) violation_h("fault", "fault:flag-set", h, "[%s] injected idn code %d: %s", l->name, IDNCODES[o.b], got);
                    char idn[32]; snprintf(idn, sizeof idn, "idn_rc=%d}", IDNCODES[o.b]);
                    if (!strstr(got, idn)) violation_h("fault", "fault:idn_rc-not-reported", h, "[%s] injected idn code %d: %s", l->name, IDNCODES[o.b], got);
                    /* "... and that library's message for the code": eav_errstr gives the converter's own text, whatever the policy settings */
                    { const char *ms = l->errstr(obj);
                      if (!ms || !ms[0]) violation_h("fault", "fault:no-message", h, "[%s] injected idn code %d (tld_check=%d): eav_errstr returned %s", l->name, IDNCODES[o.b], m->tld, ms ? "an empty string" : "NULL");
                      else if (!strcmp(l->name, "idn2") && strcmp(ms, idn2_strerror(IDNCODES[o.b])))
                          violation_h("fault", "fault:message-is-not-the-converter's", h, "[%s] injected idn code %d: eav_errstr says \"%s\", idn2_strerror says \"%s\"", l->name, IDNCODES[o.b], ms, idn2_strerror(IDNCODES[o.b])); }
                }
            }
            if (li == NLIB - 1 && o.t == OP_EMAILF && consumed) m->nfaults++;
        } break;
        }
        if (check) {
            /* the error record (code, converter message) is consistent in every reachable state: while an error code is recorded eav_errstr has a text to give, whatever
             * sequence of set-ups, validations and re-initialisations led here (a caller prints it right after any of them) */
            if (l->get_errcode(obj) != 0) { const char *ms = l->errstr(obj); if (!ms || !ms[0]) violation_h("errstr", "errstr:null-or-empty-in-a-reachable-state", h, "[%s] error code %d is recorded, but eav_errstr returned %s", l->name, l->get_errcode(obj), ms ? "an empty string" : "NULL"); }
            if (l->ledger_double_free()) violation_h("ledger", "ledger:double-free", h, "[%s] a block was freed twice", l->name);
            if (l->ledger_foreign_free()) violation_h("ledger", "ledger:free-of-unknown-pointer", h, "[%s] free() of a pointer the library never obtained", l->name);
            if (l->ledger_live() > 1 + (TWO_OBJECTS ? 1 : 0)) violation_h("ledger", "ledger:previous-result-not-released", h, "[%s] %d blocks live (at most one result record may be)", l->name, l->ledger_live());
            if (l->ctx_live() > 1) violation_h("ledger", "ctx:more-than-one-live-context", h, "[%s] %d resolver contexts live", l->name, l->ctx_live());
            if (l->ctx_errors()) violation_h("ledger", "ctx:destroy-or-use-of-dead-context", h, "[%s] error counter %d (1000*destroy-dead + use-dead)", l->name, l->ctx_errors());
            if (!strcmp(l->name, "idnkit") && (o.t == OP_SETUP) && m->setup_ok && m->confirmed != 3 && l->ctx_live() != 0)
                violation_h("ledger", "ctx:not-released-by-setup-to-ascii-mode", h, "[%s] context still live after eav_setup to an ASCII mode", l->name);
        }
    }
    if (o.t == OP_RFC) m->rfc = RFCV[o.a];
    else if (o.t == OP_TLD) m->tld = o.a;
    else if (o.t == OP_MASK) m->mask = o.a;
    else if (o.t == OP_FREEINIT) { int nf = m->nfaults; model_init(m); m->nfaults = nf; }
}

static void run_begin(run_t *r, int poison) {
    if (NOPOISON) poison = -1;        /* leave the object memory uninitialised (for memcheck) */
    memset(r, 0, sizeof *r); model_init(&r->m); r->m.nfaults = 0;
    for (int li = 0; li < NLIB; li++) {
        LIB[li].ledger_reset(); LIB[li].ctx_reset(); lib_restore_statics(li); r->obj[li] = LIB[li].new_(poison); LIB[li].init(r->obj[li]);
        if (TWO_OBJECTS) { r->other[li] = LIB[li].new_(poison); LIB[li].init(r->other[li]); if (LIB[li].setup(r->other[li])) exit(2); }
    }
}
/* eav_free at the end of every history: everything released exactly once */
static void run_end(run_t *r, const hist_t *h, int check) {
    for (int li = 0; li < NLIB; li++) {
        lib_t *l = &LIB[li];
        if (TWO_OBJECTS) { l->free_(r->other[li]); l->delete_(r->other[li]); }
        l->free_(r->obj[li]);
        if (check) {
            if (l->ledger_live() != 0) violation_h("free", "free:allocation-not-released", h, "[%s] %d allocation(s) live after the final eav_free", l->name, l->ledger_live());
            if (l->ctx_live() != 0) violation_h("free", "free:resolver-context-not-released", h, "[%s] %d resolver context(s) live after the final eav_free (created %d destroyed %d)", l->name, l->ctx_live(), l->ctx_created(), l->ctx_destroyed());
            if (l->ledger_double_free()) violation_h("free", "ledger:double-free", h, "[%s] double free in eav_free", l->name);
            if (l->ctx_errors()) violation_h("free", "ctx:destroy-or-use-of-dead-context", h, "[%s] error counter %d", l->name, l->ctx_errors());
        }
        l->delete_(r->obj[li]); l->ledger_reset(); l->ctx_reset();
    }
}
static int state_key(run_t *r, char *out, size_t cap) {
    size_t n = 0;
    for (int li = 0; li < NLIB; li++) { n += (size_t)LIB[li].canon(r->obj[li], out + n, cap - n); out[n++] = '|';
        if (TWO_OBJECTS) { n += (size_t)LIB[li].canon(r->other[li], out + n, cap - n); out[n++] = '|'; } }
    /* digest of the libraries' own static memory: constant on a library without hidden state, so it costs no states there */
    { uint64_t h = 1469598103934665603ull; for (int li = 0; li < NLIB; li++) for (int g = 0; g < NSEG[li]; g++) for (size_t i = 0; i < SEG[li][g].n; i++) { h ^= SEG[li][g].p[i]; h *= 1099511628211ull; }
      n += (size_t)snprintf(out + n, cap - n, "S:%016llx|", (unsigned long long)h); }
    n += (size_t)snprintf(out + n, cap - n, "M:c=%d r=%d t=%d m=%d ok=%d f=%d pf=%d", r->m.confirmed, r->m.rfc, r->m.tld, r->m.mask, r->m.setup_ok, r->m.nfaults, r->m.utf8_pending_fail);
    return (int)n;
}

/* enabled operations in a state (the documented protocol) */
static int enabled(const model_t *m, op_t *out) {
    int n = 0;
    for (int i = 0; i < 6; i++) if (RFCV[i] != m->rfc) out[n++] = (op_t){ OP_RFC, (unsigned char)i, 0, 0 };
    for (int i = 0; i < 2; i++) if (i != m->tld) out[n++] = (op_t){ OP_TLD, (unsigned char)i, 0, 0 };
    for (int i = 0; i < NMASK; i++) if (i != m->mask) out[n++] = (op_t){ OP_MASK, (unsigned char)i, 0, 0 };
    out[n++] = (op_t){ OP_SETUP, 0, 0, 0 };
    if (CTXFAIL) { out[n++] = (op_t){ OP_SETUPF, 0, 0, 0 }; out[n++] = (op_t){ OP_SETUPF, 1, 0, 0 }; }
    out[n++] = (op_t){ OP_FREEINIT, 0, 0, 0 };
    if (TWO_OBJECTS) { out[n++] = (op_t){ OP_OTHER, 0, 0, 0 }; out[n++] = (op_t){ OP_OTHER, 3, 0, 0 }; out[n++] = (op_t){ OP_OTHER, 5, 0, 0 }; }
    if (m->setup_ok && !m->utf8_pending_fail) {
        for (int a = 0; a < NPOOL; a++) out[n++] = (op_t){ OP_EMAIL, (unsigned char)PIDX[a], 0, 0 };
        if (FAULTS && m->nfaults < FAULT_BOUND && m->confirmed == 3)
            for (int a = 0; a < NPOOL; a++) {
                int pa = PIDX[a];
                if (!(pa == 0 || pa == 3 || pa == 16 || pa == 19 || pa == 20)) continue;      /* host-name addresses that reach the conversion (two of them long); literals / bad local parts do not */
                for (int c = 0; c < NCODES; c++) for (int b = 0; b < 2; b++) out[n++] = (op_t){ OP_EMAILF, (unsigned char)pa, (unsigned char)c, (unsigned char)b };
            }
    }
    return n;
}

/* ---------------------------------------------------------------- state store */
typedef struct { hist_t h; } node_t;
static node_t *NODE; static long NNODE, CAPNODE;
static uint64_t *HT; static long HTSIZE;
static char **KEYS;
static uint64_t fnv(const char *s) { uint64_t h = 1469598103934665603ull; for (; *s; s++) { h ^= (unsigned char)*s; h *= 1099511628211ull; } return h ? h : 1; }
static long store_find_or_add(const char *key, const hist_t *h, int *added) {
    uint64_t hv = fnv(key); long i = (long)(hv % (uint64_t)HTSIZE);
    for (;;) {
        if (HT[i] == 0) break;
        long idx = (long)(HT[i] - 1);
        if (strcmp(KEYS[idx], key) == 0) { *added = 0; return idx; }
        i = (i + 1) % HTSIZE;
    }
    if (NNODE >= CAPNODE) { fprintf(stderr, "state store full\n"); exit(2); }
    NODE[NNODE].h = *h; KEYS[NNODE] = strdup(key); HT[i] = (uint64_t)NNODE + 1; *added = 1;
    return NNODE++;
}

static long g_maxdepth, g_outcome_kinds;
static char *OUTSEEN[4096]; static int NOUT;
static void note_outcome(const char *s) { for (int i = 0; i < NOUT; i++) if (!strcmp(OUTSEEN[i], s)) return; if (NOUT < 4096) OUTSEEN[NOUT++] = strdup(s); }

static void bfs(long shard, void *arg) {
    (void)shard; (void)arg;
    CAPNODE = 3000000; NODE = calloc((size_t)CAPNODE, sizeof *NODE); KEYS = calloc((size_t)CAPNODE, sizeof *KEYS);
    HTSIZE = 8000009; HT = calloc((size_t)HTSIZE, sizeof *HT);
    char key[2048], key2[2048];
    hist_t h0; h0.n = 0;
    run_t r; run_begin(&r, POISON[0]); state_key(&r, key, sizeof key);
    /* eav_init on poisoned memory must give one canonical state whatever the poison (no field left unwritten) */
    for (int p = 1; p < 4; p++) {
        run_t r2; run_begin(&r2, POISON[p]); state_key(&r2, key2, sizeof key2);
        if (strcmp(key, key2) != 0) violation_h("poison", "init:field-not-written-by-eav_init", &h0, "eav_init on memory filled with 0x%02x gives %s ; filled with 0x00 gives %s", POISON[p], key2, key);
        if (strstr(key2, "WILD")) violation_h("poison", "init:field-not-written-by-eav_init", &h0, "after eav_init on memory filled with 0x%02x a pointer field holds the poison: %s", POISON[p], key2);
        run_end(&r2, &h0, 0);
    }
    char initkey[2048]; strcpy(initkey, key);
    run_end(&r, &h0, 1);
    int added; store_find_or_add(key, &h0, &added);
    long head = 0;
    while (head < NNODE) {
        if ((head & 255) == 0 && mc_deadline_hit()) { break; }
        if (mc_sh->nclass > 0 && head > 30000) break;     /* violations already recorded: do not unroll a state space that no longer closes */
        hist_t h = NODE[head].h; head++;
        if (h.n > g_maxdepth) g_maxdepth = h.n;
        /* rebuild the state (no checks: they were made when the transition was first taken) */
        run_begin(&r, POISON[0]);
        for (int i = 0; i < h.n; i++) apply(&r, h.op[i], &h, 0);
        op_t ops[4096]; int nops = enabled(&r.m, ops);
        run_end(&r, &h, 0);
        MC_ADD(C_REPLAYS, 1);
        if (h.n + 1 >= HMAX || h.n >= MAXDEPTH) continue;
        for (int k = 0; k < nops; k++) {
            hist_t h2 = h; h2.op[h2.n++] = ops[k];
            mc_current("bfs", "", h2.op, (size_t)h2.n * sizeof(op_t));
            char keyp[4][2048];
            for (int p = 0; p < NPOISON; p++) {
                run_begin(&r, POISON[p]);
                for (int i = 0; i < h.n; i++) apply(&r, h.op[i], &h2, 0);
                apply(&r, ops[k], &h2, p == 0);
                state_key(&r, keyp[p], sizeof keyp[p]);
                if (p == 0 && (ops[k].t == OP_EMAIL || ops[k].t == OP_EMAILF)) { char o[512]; LIB[0].outcome(r.obj[0], 0, o, sizeof o); note_outcome(o + 6); }
                if (p == 0 && ops[k].t == OP_FREEINIT) {
                    /* free+init leads to the state of a first init (settings default, nothing remembered) */
                    char *mpos = strstr(keyp[0], "|M:"), *ipos = strstr(initkey, "|M:");
                    if (TWO_OBJECTS) {   /* only this object's own serialisation, without the process-wide block count */
                        mpos = strstr(keyp[0], " live="); ipos = strstr(initkey, " live=");
                    }
                    if (mpos && ipos && ((mpos - keyp[0]) != (ipos - initkey) || strncmp(keyp[0], initkey, (size_t)(mpos - keyp[0])) != 0))
                        violation_h("reinit", "reinit:state-differs-from-first-init", &h2, "after eav_free;eav_init: %s ; after a first eav_init: %s", keyp[0], initkey);
                }
                run_end(&r, &h2, p == 0);
                MC_ADD(C_REPLAYS, 1);
                if (p > 0 && strcmp(keyp[p], keyp[0]) != 0)
                    violation_h("poison", "poison:state-depends-on-uninitialised-memory", &h2, "object memory pre-filled with 0x%02x: %s ; with 0x00: %s", POISON[p], keyp[p], keyp[0]);
            }
            if (strstr(keyp[0], "WILD") || strstr(keyp[0], "DANGLING")) violation_h("canon", "canon:wild-or-dangling-pointer-in-object", &h2, "%s", keyp[0]);
            MC_ADD(C_TRANS, 1); MC_ADD(C_EVAL, 1);
            store_find_or_add(keyp[0], &h2, &added);
            if (added) MC_ADD(C_STATES, 1);
        }
    }
    MC_ADD(C_STATES, 1);     /* the initial state */
    if (head < NNODE) mc_sh->deadline_hit = 1;
    /* report through shared counters */
    mc_sh->ctr[mc_counter("bfs_depth_at_fixpoint")] = (uint64_t)g_maxdepth;
    mc_sh->ctr[mc_counter("distinct_email_outcomes")] = (uint64_t)NOUT;
    mc_sh->ctr[mc_counter("frontier_left")] = (uint64_t)(NNODE - head);
    /* samples: a few of the longest histories */
    for (long i = NNODE - 1, c = 0; i >= 0 && c < 3; i -= (NNODE / 3 + 1), c++) { char hs[1024]; hist_str(&NODE[i].h, hs, sizeof hs); mc_sample("history", hs, NODE[i].h.op, (size_t)NODE[i].h.n * 4, KEYS[i]); }
}

/* ---------------------------------------------------------------- C19 (a),(b): runs of n validations with faults at every position */
static int C_FAULTRUNS;
static const int FAULTADDR[4] = { 0, 3, 16, 20 };
static void fault_runs(long shard, void *arg) {
    (void)arg; int n = (int)shard + 1;           /* run length */
    hist_t h;
    /* single fault at every position x every code x both buffer modes */
    for (int pos = 0; pos < n; pos++) for (int c = 0; c < NCODES; c++) for (int b = 0; b < 2; b++) {
        h.n = 0; h.op[h.n++] = (op_t){ OP_SETUP, 0, 0, 0 };
        int cap = n < HMAX - 2 ? n : HMAX - 2;
        int ppos = pos % cap;
        for (int i = 0; i < cap; i++) h.op[h.n++] = (i == ppos) ? (op_t){ OP_EMAILF, (unsigned char)FAULTADDR[(i + c) % 4], (unsigned char)c, (unsigned char)b } : (op_t){ OP_EMAIL, (unsigned char)PIDX[i % NPOOL], 0, 0 };
        mc_current("fault-run", "", h.op, (size_t)h.n * 4);
        run_t r; run_begin(&r, 0xA5);
        for (int i = 0; i < h.n; i++) { hist_t hp = h; hp.n = i + 1; apply(&r, h.op[i], &hp, 1); }
        run_end(&r, &h, 1);
        MC_ADD(C_FAULTRUNS, 1); MC_ADD(C_EVAL, 1); MC_ADD(C_NONTRIV, 1);
    }
    /* all double faults for short runs over a 6-code subset */
    if (n <= 6) {
        static const int sub[6] = { 0, 3, 9, 14, 27, 30 };
        for (int p1 = 0; p1 < n; p1++) for (int p2 = p1 + 1; p2 < n; p2++) for (int c1 = 0; c1 < 6; c1++) for (int c2 = 0; c2 < 6; c2++) for (int b = 0; b < 4; b++) {
            h.n = 0; h.op[h.n++] = (op_t){ OP_SETUP, 0, 0, 0 };
            for (int i = 0; i < n; i++) {
                if (i == p1) h.op[h.n++] = (op_t){ OP_EMAILF, 0, (unsigned char)sub[c1], (unsigned char)(b & 1) };
                else if (i == p2) h.op[h.n++] = (op_t){ OP_EMAILF, 3, (unsigned char)sub[c2], (unsigned char)(b >> 1) };
                else h.op[h.n++] = (op_t){ OP_EMAIL, (unsigned char)PIDX[i % NPOOL], 0, 0 };
            }
            mc_current("fault-run2", "", h.op, (size_t)h.n * 4);
            int saveb = FAULT_BOUND; FAULT_BOUND = 99;
            run_t r; run_begin(&r, 0x5A);
            for (int i = 0; i < h.n; i++) { hist_t hp = h; hp.n = i + 1; apply(&r, h.op[i], &hp, 1); }
            run_end(&r, &h, 1);
            FAULT_BOUND = saveb;
            MC_ADD(C_FAULTRUNS, 1); MC_ADD(C_EVAL, 1); MC_ADD(C_NONTRIV, 1);
        }
    }
}

/* ---------------------------------------------------------------- C15: every int value class for rfc */
static void setup_values(long shard, void *arg) {
    (void)shard; (void)arg;
    static const int vals[] = { INT_MIN, -2, -1, 0, 1, 2, 3, 4, 5, 77, 255, 256, 65536, INT_MAX };
    for (int li = 0; li < NLIB; li++) for (unsigned i = 0; i < sizeof vals / sizeof vals[0]; i++) for (int prior = -1; prior < 4; prior++) {
        lib_t *l = &LIB[li]; l->ledger_reset(); l->ctx_reset();
        void *o = l->new_(0xA5); l->init(o);
        hist_t h; h.n = 0;
        if (prior >= 0) { l->set_rfc(o, prior); l->setup(o); l->is_email(o, POOL[3], strlen(POOL[3])); }
        l->set_rfc(o, vals[i]);
        int rc = l->setup(o); const char *msg = l->errstr(o);
        int valid = vals[i] >= 0 && vals[i] <= 3;
        char cfg[64]; snprintf(cfg, sizeof cfg, "rfc=%d prior=%d", vals[i], prior);
        mc_current("setup-values", cfg, "", 0);
        MC_ADD(C_EVAL, 1); MC_ADD(C_NONTRIV, 1);
        if (valid && rc != 0) mc_violation("noreplay-setup-values", "setup:valid-rfc-nonzero", "", cfg, "", 0, "[%s] eav_setup(rfc=%d) returned %d", l->name, vals[i], rc);
        if (!valid && rc != 1) mc_violation("noreplay-setup-values", "setup:invalid-rfc-return-value", "", cfg, "", 0, "[%s] eav_setup(rfc=%d) returned %d, documented EEAV_INVALID_RFC", l->name, vals[i], rc);
        if (!valid && (!msg || strcmp(msg, "invalid RFC specified")))
            mc_violation("noreplay-setup-values", "setup:invalid-rfc-errstr", "", cfg, "", 0, "[%s] eav_setup(rfc=%d) failed but eav_errstr says \"%s\" (prior mode %d)", l->name, vals[i], msg ? msg : "(null)", prior);
        l->free_(o); l->delete_(o);
    }
}

/* ---------------------------------------------------------------- C18, E-INPUT part: the corpora through the three builds side by side */
static void *COBJ[3][4][2]; static int CURPH; static int C_CORPUS;
static int CHAS[3][4][2];
static void corpus_sink(const unsigned char *s, size_t n, void *arg) {
    (void)arg; static char buf[70100]; if (n + 2 > sizeof buf) return;
    for (size_t i = 0; i < n; i++) if (!s[i]) return;
    memcpy(buf, s, n); buf[n] = 0;
    mc_current(corpus_name(CURPH), "", s, n); MC_ADD(C_CORPUS, 1);
    for (int m = 0; m < 4; m++) for (int t = 0; t < 2; t++) {
        char out[3][512];
        for (int li = 0; li < NLIB; li++) {
            /* "... and leaks no resource": the allocator ledger of each back end around every call - the object keeps at most its one result record,
             * so a call may add one block to the live set the first time the object is used and none afterwards */
            int l0 = LIB[li].ledger_live();
            int r = LIB[li].is_email(COBJ[li][m][t], buf, n); LIB[li].outcome(COBJ[li][m][t], r, out[li], sizeof out[li]); MC_ADD(C_EVAL, 1);
            int l1 = LIB[li].ledger_live(), allowed = l0 + (CHAS[li][m][t] ? 0 : 1); CHAS[li][m][t] = 1;
            if (l1 > allowed || LIB[li].ledger_double_free() || LIB[li].ledger_foreign_free()) {
                char cfg[48]; snprintf(cfg, sizeof cfg, "mode=%d tld=%d", m, t);
                mc_violation(n > MC_CASEMAX ? "noreplay-long-input" : corpus_name(CURPH), l1 > allowed ? "backend:corpus-call-leaks" : "backend:corpus-call-frees-twice-or-foreign", "", cfg, s, n,
                             "[%s] live blocks %d -> %d around one eav_is_email (at most %d expected), double frees %d, foreign frees %d", LIB[li].name, l0, l1, allowed, LIB[li].ledger_double_free(), LIB[li].ledger_foreign_free());
                LIB[li].ledger_reset(); for (int a = 0; a < 4; a++) for (int b = 0; b < 2; b++) CHAS[li][a][b] = 0;      /* re-base: one report per cause */
            }
        }
        for (int li = 1; li < NLIB; li++) if (strcmp(out[0], out[li])) {
            char cfg[48]; snprintf(cfg, sizeof cfg, "mode=%d tld=%d", m, t);
            mc_violation(n > MC_CASEMAX ? "noreplay-long-input" : corpus_name(CURPH), "backend:corpus-outcome-differs", "", cfg, s, n, "[%s] %s ; [%s] %s", LIB[0].name, out[0], LIB[li].name, out[li]);
        }
    }
    MC_ADD(C_NONTRIV, 1);
}
static void corpus_objects(void) {
    for (int li = 0; li < NLIB; li++) for (int m = 0; m < 4; m++) for (int t = 0; t < 2; t++) {
        void *o = LIB[li].new_(0xA5); LIB[li].init(o); LIB[li].set_rfc(o, m); LIB[li].set_tld(o, t); if (LIB[li].setup(o)) { fprintf(stderr, "setup\n"); exit(2); } COBJ[li][m][t] = o; }
}
static void corpus_shard(long shard, void *arg) { (void)arg; corpus_run(CURPH, shard, corpus_sink, NULL); }
/* the allow_tld policy switch is a hand-copied block in each backend: all 2^11 masks x one address per class present in the table
 * (+ reserved, unlisted, single label, literal) x 4 modes through the three builds, outcomes compared */
static char POLADDR[24][128]; static int NPOL;
static void policy_build(void) {
    int seen[16] = { 0 };
    for (int i = 0; i < RT_PUNY.n; i++) { int c = RT_PUNY.row[i].cls; if (c > 0 && c < 16 && !seen[c]) { seen[c] = 1; snprintf(POLADDR[NPOL++], 128, "user@host.%s", RT_PUNY.row[i].domain); } }
    static const char *const X[] = { "user@example.com", "user@sub.test", "user@host.zzzzq", "user@singlelabel", "user@[192.0.2.1]", "user@[IPv6:::1]", "user@-bad.com", "user@\xd0\xbf.\xd1\x80\xd1\x84" };
    for (unsigned i = 0; i < sizeof X / sizeof X[0]; i++) snprintf(POLADDR[NPOL++], 128, "%s", X[i]);
}
static void policy_shard(long shard, void *arg) {
    (void)arg;
    for (int mask = (int)shard * 32; mask < (int)shard * 32 + 32; mask++) for (int m = 0; m < 4; m++) {
        for (int li = 0; li < NLIB; li++) LIB[li].set_mask(COBJ[li][m][1], mask);
        for (int a = 0; a < NPOL; a++) {
            char out[3][512];
            for (int li = 0; li < NLIB; li++) { int r = LIB[li].is_email(COBJ[li][m][1], POLADDR[a], strlen(POLADDR[a])); LIB[li].outcome(COBJ[li][m][1], r, out[li], sizeof out[li]); MC_ADD(C_EVAL, 1); }
            for (int li = 1; li < NLIB; li++) if (strcmp(out[0], out[li])) {
                char cfg[64]; snprintf(cfg, sizeof cfg, "policy mode=%d mask=%d", m, mask);
                mc_violation("policy", "backend:policy-outcome-differs", "", cfg, POLADDR[a], strlen(POLADDR[a]), "mask 0x%03x: [%s] %s ; [%s] %s", mask, LIB[0].name, out[0], LIB[li].name, out[li]);
            }
            MC_ADD(C_NONTRIV, 1);
        }
    }
}

/* ---------------------------------------------------------------- C19, E-INPUT part: a failing conversion on EVERY corpus domain
 * The fault runs above inject into a handful of pool addresses; what the library does around a failing conversion may depend on the domain's content
 * (a pre-processing step, a copy).  Every address of the IDN-flavoured corpora, mode 6531, tld_check on and off, three environment answers
 * (none, code without buffer, code with buffer): the ledger must show no block left after eav_free, at most the result record before it; an
 * injected failure is contained (rejected, IDN error, converter's message, no flag). */
/* the per-part entry point with ONE idn-code variable shared across calls (how tests/ and direct callers use it): every code x buffer x tld_check,
 * then a conversion that succeeds, then a name that fails for a non-IDN reason - the variable always reports the call just made */
static int C_DIRECT;
static void direct_runs(long shard, void *arg) {
    (void)shard; (void)arg; lib_t *l = &LIB[0]; if (!l->utf8_domain) return;
    static const char *const FOLLOW[] = { "ok.com", "\xd0\xb6.\xd1\x80\xd1\x84", "a..b", "-a.com", "singlelabel", "a.zzzzq" };
    for (int c = 0; c < NCODES; c++) for (int b = 0; b < 2; b++) for (int t = 0; t < 2; t++) for (unsigned f = 0; f < sizeof FOLLOW / sizeof FOLLOW[0]; f++) {
        char cfg[64]; snprintf(cfg, sizeof cfg, "direct code=%d buf=%d tld=%d follow=%u", c, b, t, f);
        mc_current("noreplay-direct", cfg, "", 0);
        l->ledger_reset(); int r = -777;
        l->inject(IDNCODES[c], b); int rc1 = l->utf8_domain(&r, "host.example.org", 16, t); int consumed = !l->inject_pending(); l->disarm();
        MC_ADD(C_EVAL, 2); MC_ADD(C_DIRECT, 1);
        if (consumed && (rc1 != -2 || r != IDNCODES[c])) mc_violation("noreplay-direct", "direct:failure-not-reported", "", cfg, "", 0, "injected %d: is_utf8_domain returned %d, *r=%d", IDNCODES[c], rc1, r);
        int r_fresh = -777, rc_fresh, rc2;
        rc2 = l->utf8_domain(&r, FOLLOW[f], strlen(FOLLOW[f]), t);
        rc_fresh = l->utf8_domain(&r_fresh, FOLLOW[f], strlen(FOLLOW[f]), t);
        if (rc2 != rc_fresh || r != r_fresh)
            mc_violation("noreplay-direct", "direct:idn-code-variable-keeps-the-earlier-failure", "", cfg, "", 0, "after an injected failure (%d) the next call on \"%s\" gives rc=%d *r=%d; with a fresh variable rc=%d *r=%d", IDNCODES[c], FOLLOW[f], rc2, r, rc_fresh, r_fresh);
        if (rc_fresh != -2 && r_fresh != 0) mc_violation("noreplay-direct", "direct:idn-code-not-reset-on-success", "", cfg, "", 0, "\"%s\": rc=%d (no IDN error) but *r=%d (started from -777)", FOLLOW[f], rc_fresh, r_fresh);
        if (l->ledger_live() != 0) mc_violation("noreplay-direct", "direct:leak", "", cfg, "", 0, "%d block(s) live after three is_utf8_domain calls", l->ledger_live());
    }
}
static int C_FCORPUS;
static void fault_corpus_sink(const unsigned char *s, size_t n, void *arg) {
    (void)arg; static char buf[70100]; if (n + 2 > sizeof buf) return;
    for (size_t i = 0; i < n; i++) if (!s[i]) return;
    memcpy(buf, s, n); buf[n] = 0;
    lib_t *l = &LIB[0];
    static const int INJ[3][2] = { { -1, 0 }, { 0, 0 }, { 9, 1 } };     /* index into IDNCODES, with buffer */
    for (int t = 0; t < 2; t++) for (int k = 0; k < 3; k++) {
        char cfg[64]; snprintf(cfg, sizeof cfg, "faultcorpus tld=%d inj=%d", t, k);
        mc_current("faultcorpus", cfg, s, n);
        l->ledger_reset(); l->ctx_reset();
        void *o = l->new_(0xA5); l->init(o); l->set_rfc(o, 3); l->set_tld(o, t); if (l->setup(o)) exit(2);
        if (INJ[k][0] >= 0) l->inject(IDNCODES[INJ[k][0]], INJ[k][1]);
        int r = l->is_email(o, buf, n); int consumed = INJ[k][0] >= 0 && !l->inject_pending(); l->disarm();
        MC_ADD(C_EVAL, 1); MC_ADD(C_LIBCALLS, 1); MC_ADD(C_FCORPUS, 1);
        char got[512]; l->outcome(o, r, got, sizeof got);
        if (consumed) {
            const char *ms = l->errstr(o);
            if (strncmp(got, "ret=0 errcode=2 ", 16) || !strstr(got, "v4=0 v6=0 dom=0") || !ms || strcmp(ms, idn2_strerror(IDNCODES[INJ[k][0]])))
                mc_violation("faultcorpus", "faultcorpus:failure-not-contained", "", cfg, n > MC_CASEMAX ? (const unsigned char *)"" : s, n > MC_CASEMAX ? 0 : n, "injected idn code %d: %s (message \"%s\")", IDNCODES[INJ[k][0]], got, ms ? ms : "(null)");
        }
        if (l->ledger_live() > 1) mc_violation("faultcorpus", "faultcorpus:blocks-live-after-the-call", "", cfg, n > MC_CASEMAX ? (const unsigned char *)"" : s, n > MC_CASEMAX ? 0 : n, "%d blocks live after eav_is_email (at most the result record may be); %s", l->ledger_live(), got);
        l->free_(o);
        if (l->ledger_live() != 0) mc_violation("faultcorpus", "faultcorpus:leak", "", cfg, n > MC_CASEMAX ? (const unsigned char *)"" : s, n > MC_CASEMAX ? 0 : n, "%d block(s) still allocated after eav_free (%s conversion); %s", l->ledger_live(), consumed ? "failed" : INJ[k][0] >= 0 ? "no" : "natural", got);
        if (l->ledger_double_free() || l->ledger_foreign_free()) mc_violation("faultcorpus", "faultcorpus:double-or-foreign-free", "", cfg, n > MC_CASEMAX ? (const unsigned char *)"" : s, n > MC_CASEMAX ? 0 : n, "double=%d foreign=%d", l->ledger_double_free(), l->ledger_foreign_free());
        l->delete_(o);
    }
    MC_ADD(C_NONTRIV, 1);
}
/* every code x buffer x tld_check on host names of every length class (1..262 characters in 63-character labels, with and without root dot): what the
 * library does with one particular code may depend on the shape of the name it was converting */
static void fault_lengths(long shard, void *arg) {
    (void)arg; int c = (int)shard; lib_t *l = &LIB[0];
    static const int LEN[] = { 1, 2, 3, 4, 5, 8, 16, 32, 62, 63, 64, 65, 100, 126, 127, 128, 129, 190, 191, 192, 193, 200, 240, 245, 250, 251, 252, 253, 254, 255, 256, 257, 258, 260, 262 };
    for (unsigned li = 0; li < sizeof LEN / sizeof LEN[0]; li++) for (int root = 0; root < 2; root++) for (int b = 0; b < 2; b++) for (int t = 0; t < 2; t++) {
        char a[400]; size_t n = 0; a[n++] = 'x'; a[n++] = '@';
        int L = LEN[li] - root; if (L < 1) continue;
        for (int i = 0; i < L; i++) a[n++] = (i % 64 == 63 && i != L - 1) ? '.' : (char)('a' + i % 26);
        if (root) a[n++] = '.';
        a[n] = 0;
        char cfg[80]; snprintf(cfg, sizeof cfg, "faultlen code=%d buf=%d tld=%d", c, b, t);
        mc_current("faultlen", cfg, a, n);
        l->ledger_reset(); l->ctx_reset();
        void *o = l->new_(0xA5); l->init(o); l->set_rfc(o, 3); l->set_tld(o, t); if (l->setup(o)) exit(2);
        l->inject(IDNCODES[c], b); errno = 0;
        int r = l->is_email(o, a, n); int consumed = !l->inject_pending(); l->disarm();
        MC_ADD(C_EVAL, 1); MC_ADD(C_LIBCALLS, 1); MC_ADD(C_FCORPUS, 1);
        char got[512]; l->outcome(o, r, got, sizeof got); const char *ms = l->errstr(o);
        if (consumed && (strncmp(got, "ret=0 errcode=2 ", 16) || !strstr(got, "v4=0 v6=0 dom=0") || !ms || strcmp(ms, idn2_strerror(IDNCODES[c]))))
            mc_violation("faultlen", "faultlen:failure-not-contained", "", cfg, a, n, "injected idn code %d on a %d-character name%s: %s (message \"%s\")", IDNCODES[c], LEN[li], root ? " with root dot" : "", got, ms ? ms : "(null)");
        l->free_(o);
        if (l->ledger_live() != 0 || l->ledger_double_free()) mc_violation("faultlen", "faultlen:leak-or-double-free", "", cfg, a, n, "injected idn code %d: %d block(s) live after eav_free, double frees %d", IDNCODES[c], l->ledger_live(), l->ledger_double_free());
        l->delete_(o);
    }
}
static void fault_corpus_shard(long shard, void *arg) { (void)arg; corpus_run(CURPH, shard, fault_corpus_sink, NULL); }

/* ---------------------------------------------------------------- C13: every ordered pair of a set of addresses on one object
 * (hidden state keyed by something weaker than the address itself: a prefix, a hash, a length) */
static char PAIRADDR[1400][24]; static int NPAIR; static char *PAIRWANT[3][1400];
static const int PCFG[3][2] = { { 3, 1 }, { 3, 0 }, { 0, 1 } };     /* (mode, tld_check) */
static void pairs_build(void) {
    static const char AL[] = "abcdefghijklmnopqrstuvwxyz0123456789";
    for (int a = 0; a < 36; a++) for (int b = 0; b < 36; b++) snprintf(PAIRADDR[NPAIR++], 24, "x@b.%c%c", AL[a], AL[b]);
    lib_t *l = &LIB[0];
    for (int c = 0; c < 3; c++) for (int i = 0; i < NPAIR; i++) {
        l->ledger_reset(); l->ctx_reset(); void *o = l->new_(0); l->init(o); l->set_rfc(o, PCFG[c][0]); l->set_tld(o, PCFG[c][1]); if (l->setup(o)) exit(2);
        errno = 0; int r = l->is_email(o, PAIRADDR[i], strlen(PAIRADDR[i])); char buf[512]; l->outcome(o, r, buf, sizeof buf); PAIRWANT[c][i] = strdup(buf);
        l->free_(o); l->delete_(o);
    }
}
static void pairs_shard(long shard, void *arg) {
    (void)arg; lib_t *l = &LIB[0]; int pi = (int)shard;
    for (int c = 0; c < 3; c++) {
        l->ledger_reset(); l->ctx_reset(); void *o = l->new_(0xA5); l->init(o); l->set_rfc(o, PCFG[c][0]); l->set_tld(o, PCFG[c][1]); if (l->setup(o)) exit(2);
        for (int j = 0; j < NPAIR; j++) {
            l->is_email(o, PAIRADDR[pi], strlen(PAIRADDR[pi]));
            int r = l->is_email(o, PAIRADDR[j], strlen(PAIRADDR[j])); char got[512]; l->outcome(o, r, got, sizeof got);
            MC_ADD(C_EVAL, 1); MC_ADD(C_LIBCALLS, 2);
            if (strcmp(got, PAIRWANT[c][j])) {
                char cfg[96]; snprintf(cfg, sizeof cfg, "pair mode=%d tld=%d first=%s", PCFG[c][0], PCFG[c][1], PAIRADDR[pi]);
                mc_violation("pairs", "pairs:outcome-depends-on-the-previous-address", "", cfg, PAIRADDR[j], strlen(PAIRADDR[j]), "after %s: %s ; fresh object: %s", PAIRADDR[pi], got, PAIRWANT[c][j]);
            }
        }
        l->free_(o); l->delete_(o);
    }
}

/* ---------------------------------------------------------------- C13: cross-mode, cross-object ordered pairs
 * Hidden state that one call leaves behind for the NEXT call may need a particular first address in a particular mode (a rooted name, an IDN
 * name, a literal ...) and may show only on a particular second address in ANOTHER mode (upper-case TLD, another family ...).  Feature pool:
 * 26 domain parts x {as is, upper case, rooted, upper case + rooted} + local-part / degenerate shapes; every ordered pair (A, B) x every ordered
 * pair of (mode, tld_check) configurations, A on one object, B on a second object (and, same configuration, on the same object); B's outcome must
 * be the outcome of B on a fresh object in a fresh library state. */
static char XP[240][300]; static int NXP; static char *XPWANT[4][2][240];
static void xp_add(const char *a) { if (NXP < 240) snprintf(XP[NXP++], 300, "%s", a); }
static void xpairs_build(void) {
    static const char *const DOM[26] = { "a.com", "mail.host.com", "a.org", "a.ac", "a.museum", "a.arpa", "example.com", "a.example.org", "a.test", "localhost", "a.localhost", "a.zz", "a.zzzzq",
        "a", "a.xn--p1ai", "xn--80a1acny.xn--p1ai", "\xd0\xb6.\xd1\x80\xd1\x84", "\xd0\xbf\xd0\xbe\xd1\x87\xd1\x82\xd0\xb0.com", "a.b.c.d.e.net", "a-b.com", "1.com", "a.co.uk", "a.onion", "a.invalid", "a.info", "b.de" };
    char t[300];
    for (int i = 0; i < 26; i++) {
        snprintf(t, sizeof t, "x@%s", DOM[i]); xp_add(t);
        snprintf(t, sizeof t, "x@%s.", DOM[i]); xp_add(t);
        int hi = 0; for (const char *q = DOM[i]; *q; q++) if ((unsigned char)*q >= 0x80) hi = 1;
        if (hi) { if (i == 16) { xp_add("x@\xd0\x96.\xd0\xa0\xd0\xa4"); xp_add("x@\xd0\x96.\xd0\xa0\xd0\xa4."); } continue; }
        snprintf(t, sizeof t, "x@%s", DOM[i]); for (char *q = t + 2; *q; q++) *q = (char)toupper((unsigned char)*q); xp_add(t);
        snprintf(t, sizeof t, "x@%s.", DOM[i]); for (char *q = t + 2; *q; q++) *q = (char)toupper((unsigned char)*q); xp_add(t);
    }
    static const char *const OTHER[] = { "x@[1.2.3.4]", "x@[IPv6:::1]", "x@[IPv6:1:2:3:4:5:6:7:8]", "x@[1.2.3.256]", "x@[IPv6:1::2::3]", "x@[1.2.3.4", "x@-a.com", "x@a..com", "x@a.c_m", "x@a.com..",
        "x@\xd0\xb6\xe3\x80\x82" "com", "x@\xc2\xad.com", "x@a\xff.com", "x@xn--a.com", "x@\xef\xbd\x83\xef\xbd\x8f\xef\xbd\x8d.\xef\xbd\x83\xef\xbd\x8f\xef\xbd\x8d", "x@\xe2\x99\xa5.de",
        "\"a b\"@a.com", "a..b@a.com", "\"a\"b@a.com", "\xd0\xb6@a.com", "a\x01@a.com", "\"\"@a.com", " @a.com", "\"a\\ b\"@a.com", "a#b@a.com", "a.b@a.COM", "\"q@r\"@a.Org.",
        /* one natural input per libidn2 error code, and names on which transitional and non-transitional processing differ */
        "x@xn--abc.com", "x@xn----abc.com", "x@xn--0.com", "x@\xd7\x90" "a.com", "x@a\xe2\x80\x8d" "b.com", "x@\xcc\x81" "a.com", "x@ab--cd.com", "x@i\xe2\x9d\xa4.ws", "x@xn--i-7iq.ws",
        "x@\xc3\x9f.de", "x@\xcf\x82.gr", "x@fa\xc3\x9f.de",
        "x@[99999999999999999999.0.2.1]", "x@[1.2.3.99999999999999999999]", "x@[IPv6:::99999999999999999999.1.1.1]",
        "x@example.info", "x@example.co", "x@mail.example.museum", "x@example.nosuchtld", "x@test.com", "x@examples.org",
        "", "@", "x@", "@a.com", "x", "x@@a.com", "abcdefghijklmnopqrstuvwxyzabcdefghijklmnopqrstuvwxyzabcdefghijklm@a.com",
        "x@abcdefghijklmnopqrstuvwxyzabcdefghijklmnopqrstuvwxyzabcdefghijklm.com" };
    for (unsigned i = 0; i < sizeof OTHER / sizeof OTHER[0]; i++) xp_add(OTHER[i]);
    /* one address per TLD class present in the shipped table (a predecessor of every class: .biz, .arpa, .museum ...) */
    if (!NPOL) { if (rt_load()) exit(2); policy_build(); }
    for (int i = 0; i < NPOL; i++) xp_add(POLADDR[i]);
    lib_t *l = &LIB[0];
    for (int m = 0; m < 4; m++) for (int t2 = 0; t2 < 2; t2++) for (int i = 0; i < NXP; i++) {
        l->ledger_reset(); l->ctx_reset(); lib_restore_statics(0);
        void *o = l->new_(0); l->init(o); l->set_rfc(o, m); l->set_tld(o, t2); if (l->setup(o)) exit(2);
        errno = 0; int r = l->is_email(o, XP[i], strlen(XP[i])); char buf[512]; l->outcome(o, r, buf, sizeof buf); XPWANT[m][t2][i] = strdup(buf);
        l->free_(o); l->delete_(o);
    }
}
static int C_XPAIRS;
static void xpair_one_lib(int li, int i, int j, int c1, int c2, int same_object);
static void xpair_one(int i, int j, int c1, int c2, int same_object) { for (int li = 0; li < NLIB; li++) xpair_one_lib(li, i, j, c1, c2, same_object); }
static void xpair_one_lib(int li, int i, int j, int c1, int c2, int same_object) {
    lib_t *l = &LIB[li]; int m1 = c1 >> 1, t1 = c1 & 1, m2 = c2 >> 1, t2 = c2 & 1;
    l->ledger_reset(); l->ctx_reset(); lib_restore_statics(li);
    void *o1 = l->new_(0xA5); l->init(o1); l->set_rfc(o1, m1); l->set_tld(o1, t1); if (l->setup(o1)) exit(2);
    void *o2 = o1;
    if (!same_object) { o2 = l->new_(0x5A); l->init(o2); l->set_rfc(o2, m2); l->set_tld(o2, t2); if (l->setup(o2)) exit(2); }
    char cfg[96]; snprintf(cfg, sizeof cfg, "xpair first=%d m1=%d t1=%d m2=%d t2=%d same=%d", i, m1, t1, m2, t2, same_object);
    mc_current("xpairs", cfg, XP[j], strlen(XP[j]));
    errno = 0; l->is_email(o1, XP[i], strlen(XP[i]));
    if (same_object && c1 != c2) { l->set_rfc(o2, m2); l->set_tld(o2, t2); if (l->setup(o2)) exit(2); }
    /* errno belongs to the caller's thread: whatever an earlier libc call left there (here: ERANGE / EILSEQ / EINVAL in turn) must not reach the verdict */
    errno = (i + j) % 3 == 0 ? ERANGE : (i + j) % 3 == 1 ? EILSEQ : EINVAL;
    int r = l->is_email(o2, XP[j], strlen(XP[j])); char got[512]; l->outcome(o2, r, got, sizeof got);
    MC_ADD(C_EVAL, 1); MC_ADD(C_LIBCALLS, 2); MC_ADD(C_XPAIRS, 1);
    if (strcmp(got, XPWANT[m2][t2][j]))
        mc_violation("xpairs", same_object ? "xpairs:outcome-depends-on-the-previous-call(same-object,mode-switch)" : "xpairs:outcome-depends-on-a-call-on-another-object", "", cfg, XP[j], strlen(XP[j]),
                     "[%s] after \"%s\" in mode %d (tld_check %d): mode %d (tld_check %d) gives %s ; fresh library state (%s): %s", l->name, XP[i], m1, t1, m2, t2, got, LIB[0].name, XPWANT[m2][t2][j]);
    l->free_(o1); l->delete_(o1); if (!same_object) { l->free_(o2); l->delete_(o2); }
}
static void xpairs_shard(long shard, void *arg) {
    (void)arg; int i = (int)shard;
    for (int j = 0; j < NXP; j++) for (int c1 = 0; c1 < 8; c1++) for (int c2 = 0; c2 < 8; c2++) { xpair_one(i, j, c1, c2, 0); xpair_one(i, j, c1, c2, 1); }
}

/* ---------------------------------------------------------------- C13: the policy arms after every kind of predecessor
 * One address per TLD class present in the table (+ reserved, unlisted, single label, literals, a malformed and an IDN one: POLADDR) under 14 masks
 * (0, all, default, each single bit CLEARED is covered by 0/default; each single bit SET), 4 modes, TLD check on - each validated on an object
 * whose previous call was any of the 150 feature addresses: return value, errcode, message and record must be those of a fresh object.
 * (An arm of the policy switch that forgets to store its error code keeps whatever the previous call left.) */
#define NPMASK 14
static int PMASKV[NPMASK]; static char *POLWANT[4][NPMASK][24]; static int C_POLPAIRS;
static void polpairs_build(void) {
    if (!NPOL) { if (rt_load()) exit(2); policy_build(); }
    PMASKV[0] = 0; PMASKV[1] = 0x7fe; PMASKV[2] = 0x2f8 /* eav_init default */; for (int b = 0; b < 11; b++) PMASKV[3 + b] = 1 << b;
    lib_t *l = &LIB[0];
    { void *o = l->new_(0); l->init(o); char k[1024]; l->canon(o, k, sizeof k); const char *q = strstr(k, "allow_tld="); if (q) PMASKV[2] = (int)strtol(q + 10, NULL, 0); l->free_(o); l->delete_(o); }
    for (int m = 0; m < 4; m++) for (int k = 0; k < NPMASK; k++) for (int j = 0; j < NPOL; j++) {
        l->ledger_reset(); l->ctx_reset(); lib_restore_statics(0);
        void *o = l->new_(0); l->init(o); l->set_rfc(o, m); l->set_tld(o, 1); l->set_mask(o, PMASKV[k]); if (l->setup(o)) exit(2);
        errno = 0; int r = l->is_email(o, POLADDR[j], strlen(POLADDR[j])); char buf[512]; l->outcome(o, r, buf, sizeof buf); POLWANT[m][k][j] = strdup(buf);
        l->free_(o); l->delete_(o);
    }
}
static void polpair_one_lib(int li, int i, int j, int m, int k);
static void polpair_one(int i, int j, int m, int k) { for (int li = 0; li < NLIB; li++) polpair_one_lib(li, i, j, m, k); }
static void polpair_one_lib(int li, int i, int j, int m, int k) {
    lib_t *l = &LIB[li];
    l->ledger_reset(); l->ctx_reset(); lib_restore_statics(li);
    void *o = l->new_(0xA5); l->init(o); l->set_rfc(o, m); l->set_tld(o, 1); l->set_mask(o, PMASKV[k]); if (l->setup(o)) exit(2);
    char cfg[96]; snprintf(cfg, sizeof cfg, "polpair first=%d m=%d k=%d", i, m, k);
    mc_current("polpairs", cfg, POLADDR[j], strlen(POLADDR[j]));
    char s0[128], s1[128]; settings_of(l, o, s0, sizeof s0);
    errno = 0; l->is_email(o, XP[i], strlen(XP[i]));
    errno = (i + j) % 3 == 0 ? ERANGE : (i + j) % 3 == 1 ? EILSEQ : EINVAL;      /* the caller's errno must not reach the verdict */
    int r = l->is_email(o, POLADDR[j], strlen(POLADDR[j])); char got[512]; l->outcome(o, r, got, sizeof got);
    settings_of(l, o, s1, sizeof s1);
    MC_ADD(C_EVAL, 1); MC_ADD(C_LIBCALLS, 2); MC_ADD(C_POLPAIRS, 1);
    if (strcmp(s0, s1)) mc_violation("polpairs", "polpairs:validation-changed-the-caller's-settings", "", cfg, POLADDR[j], strlen(POLADDR[j]), "[%s] settings before the two calls: %s ; after: %s (first address \"%s\")", l->name, s0, s1, XP[i]);
    if (strcmp(got, POLWANT[m][k][j]))
        mc_violation("polpairs", "polpairs:policy-outcome-depends-on-the-previous-call", "", cfg, POLADDR[j], strlen(POLADDR[j]),
                     "[%s] mode %d, allow_tld 0x%03x, after \"%s\": %s ; fresh object (%s): %s", l->name, m, PMASKV[k], XP[i], got, LIB[0].name, POLWANT[m][k][j]);
    l->free_(o); l->delete_(o);
}
static void polpairs_shard(long shard, void *arg) { (void)arg; int i = (int)shard; for (int j = 0; j < NPOL; j++) for (int m = 0; m < 4; m++) for (int k = 0; k < NPMASK; k++) polpair_one(i, j, m, k); }

/* ---------- unobserved: the harness reads eav_errstr after every call - an observation that a lazily filled message cache would turn into a
 * state change.  Here the message is read ONLY at the end: validate, do not look, then (a) read; (b) eav_free, read; (c) validate another address,
 * eav_free, read; each compared with an object on which the message was read right after the call.  A crash is reported as one. */
static void unobserved_one(int i, int m, int t, int li) {
    lib_t *l = &LIB[li]; char cfg[96]; snprintf(cfg, sizeof cfg, "lib=%s m=%d t=%d i=%d", l->name, m, t, i);
    mc_current("unobserved", cfg, XP[i], strlen(XP[i]));
    /* both the reference call and each call under test are made right after the same neutral call on a third object, so that a library with hidden
     * process-wide state (xpairs' business) is in the same state before both, whatever this worker validated earlier - and in a fresh replay process */
#define NEUTRAL() do { void *nz = l->new_(0x5A); l->init(nz); l->set_rfc(nz, 0); l->set_tld(nz, 1); if (!l->setup(nz)) l->is_email(nz, "x@a.com", 7); l->free_(nz); l->delete_(nz); } while (0)
    void *ref = l->new_(0x5A); l->init(ref); l->set_rfc(ref, m); l->set_tld(ref, t); if (l->setup(ref)) { l->delete_(ref); return; }
    NEUTRAL(); errno = 0; l->is_email(ref, XP[i], strlen(XP[i])); const char *w0 = l->errstr(ref); char want[256]; snprintf(want, sizeof want, "%s", w0 ? w0 : "(null)");
    for (int variant = 0; variant < 3; variant++) {
        void *o = l->new_(0xA5); l->init(o); l->set_rfc(o, m); l->set_tld(o, t); if (l->setup(o)) { l->delete_(o); continue; }
        char w2[256]; snprintf(w2, sizeof w2, "%s", want);
        NEUTRAL(); errno = 0; l->is_email(o, XP[i], strlen(XP[i])); MC_ADD(C_EVAL, 1);
        if (variant == 2) { const char *other = XP[(i + 7) % NXP]; void *r2 = l->new_(0x5A); l->init(r2); l->set_rfc(r2, m); l->set_tld(r2, t); l->setup(r2); NEUTRAL(); l->is_email(r2, XP[i], strlen(XP[i])); l->is_email(r2, other, strlen(other)); const char *x = l->errstr(r2); snprintf(w2, sizeof w2, "%s", x ? x : "(null)"); l->free_(r2); l->delete_(r2);
                            l->is_email(o, other, strlen(other)); }
        if (variant >= 1) l->free_(o);
        const char *g = l->errstr(o); char got[256]; snprintf(got, sizeof got, "%s", g ? g : "(null)");
        if (strcmp(got, w2)) mc_violation("unobserved", variant == 0 ? "unobserved:first-read-differs" : "unobserved:first-read-after-eav_free-differs", "", cfg, XP[i], strlen(XP[i]),
                                          "[%s] mode %d tld_check %d, variant %d: eav_errstr read for the first time %s says \"%s\"; read right after the call it says \"%s\"", l->name, m, t, variant, variant ? "after eav_free" : "later", got, w2);
        if (variant == 0) l->free_(o);
        l->delete_(o);
    }
    l->free_(ref); l->delete_(ref);
}
static void unobserved_shard(long shard, void *arg) { (void)arg; for (int li = 0; li < NLIB; li++) for (int m = 0; m < 4; m++) for (int t = 0; t < 2; t++) unobserved_one((int)shard, m, t, li); }

static int do_replay(void) {
    mc_replay_t rp; if (mc_load_replay(mc_replay, &rp)) return 2;
    if (!strcmp(rp.sub, "unobserved") || !strcmp(rp.sub, "crash:unobserved")) { xpairs_build(); mc_replay_hit = 0; int li = 0; for (int k = 0; k < NLIB; k++) { char key[24]; snprintf(key, sizeof key, "lib=%s ", LIB[k].name); if (strstr(rp.cfg, key)) li = k; }
        unobserved_one((int)mc_cfg_int(rp.cfg, "i", 0), (int)mc_cfg_int(rp.cfg, "m", 0), (int)mc_cfg_int(rp.cfg, "t", 0), li);
        printf("replay %s: %s\n", mc_replay, mc_replay_hit ? "VIOLATION reproduced" : "no violation (a crash would have killed this process)"); return mc_replay_hit ? 1 : 0; }
    if (!strcmp(rp.sub, "faultlen")) { mc_replay_hit = 0; int code = (int)mc_cfg_int(rp.cfg, "code", 0); fault_lengths(code, NULL);
        printf("replay %s: %s\n", mc_replay, mc_replay_hit ? "VIOLATION reproduced" : "no violation"); return mc_replay_hit ? 1 : 0; }
    if (!strcmp(rp.sub, "faultcorpus")) { mc_replay_hit = 0; fault_corpus_sink(rp.in, (size_t)rp.len, NULL);
        printf("replay %s: %s\n", mc_replay, mc_replay_hit ? "VIOLATION reproduced" : "no violation"); return mc_replay_hit ? 1 : 0; }
    if (!strcmp(rp.sub, "polpairs")) {
        xpairs_build(); polpairs_build(); mc_replay_hit = 0; int j = -1; char a[MC_CASEMAX + 1]; memcpy(a, rp.in, (size_t)rp.len); a[rp.len] = 0;
        for (int k = 0; k < NPOL; k++) if (!strcmp(POLADDR[k], a)) j = k;
        if (j >= 0) polpair_one((int)mc_cfg_int(rp.cfg, "first", 0), j, (int)mc_cfg_int(rp.cfg, "m", 0), (int)mc_cfg_int(rp.cfg, "k", 0));
        printf("replay %s: %s\n", mc_replay, mc_replay_hit ? "VIOLATION reproduced" : "no violation"); return mc_replay_hit ? 1 : 0;
    }
    if (!strcmp(rp.sub, "xpairs")) {
        xpairs_build(); mc_replay_hit = 0; int j = -1; char a[MC_CASEMAX + 1]; memcpy(a, rp.in, (size_t)rp.len); a[rp.len] = 0;
        for (int k = 0; k < NXP; k++) if (!strcmp(XP[k], a)) j = k;
        if (j >= 0) xpair_one((int)mc_cfg_int(rp.cfg, "first", 0), j, (int)(mc_cfg_int(rp.cfg, "m1", 0) * 2 + mc_cfg_int(rp.cfg, "t1", 0)), (int)(mc_cfg_int(rp.cfg, "m2", 0) * 2 + mc_cfg_int(rp.cfg, "t2", 0)), (int)mc_cfg_int(rp.cfg, "same", 0));
        printf("replay %s: %s\n", mc_replay, mc_replay_hit ? "VIOLATION reproduced" : "no violation"); return mc_replay_hit ? 1 : 0;
    }
    if (!strcmp(rp.sub, "pairs")) {
        pairs_build(); mc_replay_hit = 0; const char *f = strstr(rp.cfg, "first="); char a[MC_CASEMAX + 1]; memcpy(a, rp.in, (size_t)rp.len); a[rp.len] = 0;
        for (int k = 0; f && k < NPAIR; k++) if (!strcmp(PAIRADDR[k], f + 6)) { pairs_shard(k, NULL); break; }
        printf("replay %s: %s\n", mc_replay, mc_replay_hit ? "VIOLATION reproduced" : "no violation"); return mc_replay_hit ? 1 : 0;
    }
    hist_t h; h.n = rp.len / 4; if (h.n > HMAX) h.n = HMAX; memcpy(h.op, rp.in, (size_t)h.n * 4);
    char hs[2048]; hist_str(&h, hs, sizeof hs); printf("history: %s\n", hs);
    mc_replay_hit = 0;
    int saveb = FAULT_BOUND; FAULT_BOUND = 99;
    for (int p = 0; p < 4; p++) {
        char k0[2048], kp[2048];
        run_t r; run_begin(&r, POISON[p]);
        if (h.n == 0) { state_key(&r, kp, sizeof kp); if (strstr(kp, "WILD")) mc_replay_hit++; }
        for (int i = 0; i < h.n; i++) { hist_t hp = h; hp.n = i + 1; apply(&r, h.op[i], &hp, 1); }
        state_key(&r, p ? kp : k0, 2048);
        if (strstr(p ? kp : k0, "WILD") || strstr(p ? kp : k0, "DANGLING")) mc_replay_hit++;
        run_end(&r, &h, 1);
        if (p && strcmp(k0, kp)) mc_replay_hit++;
    }
    FAULT_BOUND = saveb;
    printf("replay %s: %s\n", mc_replay, mc_replay_hit ? "VIOLATION reproduced" : "no violation");
    return mc_replay_hit ? 1 : 0;
}

int main(int argc, char **argv) {
    mc_init(argc, argv, "hist");
    const char *libs[3] = { 0, 0, 0 }; int nl = 0;
    for (int i = 1; i < argc; i++) {
        if (!strcmp(argv[i], "--prop") && i + 1 < argc) PROP = argv[++i];
        else if (!strcmp(argv[i], "--lib") && i + 1 < argc && nl < 3) libs[nl++] = argv[++i];
        else if (!strcmp(argv[i], "--ctxfail")) CTXFAIL = 1;
        else if (!strcmp(argv[i], "--maxdepth") && i + 1 < argc) MAXDEPTH = atoi(argv[++i]);
        else if (!strcmp(argv[i], "--nopoison")) NOPOISON = 1;
        else if (!strcmp(argv[i], "--two-objects")) TWO_OBJECTS = 1;
    }
    for (int i = 0; i < nl; i++) load_lib(libs[i]);
    if (!NLIB) { fprintf(stderr, "no --lib\n"); return 2; }
    mc_driver = PROP;
    C_STATES = mc_counter("states"); C_TRANS = mc_counter("transitions"); C_REPLAYS = mc_counter("histories_replayed");
    C_EMAILT = mc_counter("email_transitions_compared_with_fresh_object"); C_LIBCALLS = mc_counter("library_calls");
    C_FAULTRUNS = mc_counter("fault_runs"); C_XPAIRS = mc_counter("cross_mode_pairs"); C_FCORPUS = mc_counter("fault_corpus_calls"); C_DIRECT = mc_counter("direct_validator_sequences"); C_POLPAIRS = mc_counter("policy_pairs"); mc_counter("bfs_depth_at_fixpoint"); mc_counter("distinct_email_outcomes"); mc_counter("frontier_left");
    build_long_pool();
    { static const int Q[13] = { 0, 1, 2, 3, 4, 5, 6, 7, 16, 17, 18, 20, 21 }; if (!mc_thorough) { for (int i = 0; i < 13; i++) PIDX[i] = Q[i]; NPOOL = 13; } }
    if (mc_thorough) { NPOOL = 22; NMASK = 4; NPOISON = 4; }
    if (NOPOISON) { NPOISON = 1; }
    if (!strcmp(PROP, "C19")) { static const int F[9] = { 0, 3, 16, 19, 20, 1, 5, 6, 17 }; for (int i = 0; i < 9; i++) PIDX[i] = F[i]; FAULTS = 1; NPOOL = mc_thorough ? 9 : 6; NMASK = 2; NPOISON = 1; }
    if (!strcmp(PROP, "C18")) { NPOOL = mc_thorough ? 22 : 13; NMASK = mc_thorough ? 4 : 3; NPOISON = 1; }
    fresh_precompute();
    if (mc_replay) return do_replay();
    C_CORPUS = mc_counter("corpus_addresses_through_all_backends");
    if (!strcmp(PROP, "C18corpus")) {
        mc_driver = "C18"; CORPUS_DEEP = mc_thorough; if (corpus_load()) return 2; corpus_objects();
        static const int PH[] = { CP_TLD, CP_IDN, CP_LONGIDN, CP_ALTDOT, CP_LABELLEN, CP_MAXLIT, CP_LPXDOM, CP_WHOLEDOM, CP_DEPTH, CP_EMBED, CP_SUBST, CP_SHORTLAB, CP_POSN, CP_WRAP, CP_EDIT, CP_EMAIL, CP_DOMAIN, CP_LITERAL, CP_LOCAL, CP_BYTES, CP_CROSS, CP_LONG, CP_SCALARS };
        policy_build(); mc_parallel("3 backends: all 2^11 allow_tld masks x one address per class x 4 modes", 64, policy_shard, NULL);
        for (unsigned i = 0; i < sizeof PH / sizeof PH[0]; i++) { CURPH = PH[i]; char nm[64]; snprintf(nm, sizeof nm, "3 backends: %.40s", corpus_name(CURPH)); mc_parallel(nm, corpus_shards(CURPH), corpus_shard, NULL); }
        return mc_finish();
    }
    if (!strcmp(PROP, "C15")) { mc_parallel("eav_setup over rfc value classes x prior mode", 1, setup_values, NULL); return mc_finish(); }
    mc_parallel(CTXFAIL ? "BFS to fixpoint (idnkit build, create/initialize failures as transitions)" : FAULTS ? "BFS to fixpoint with IDN fault transitions (<=2 faults per history)" : "BFS to fixpoint over the API menu", 1, bfs, NULL);
    if (!strcmp(PROP, "C13") && !TWO_OBJECTS && MAXDEPTH >= 40) { pairs_build(); mc_parallel("pairs: every ordered pair of the 1296 addresses x@b.XY on one object, 3 configurations", NPAIR, pairs_shard, NULL); }
    if ((!strcmp(PROP, "C13") || (!strcmp(PROP, "C18") && !CTXFAIL && NLIB == 3)) && !TWO_OBJECTS && MAXDEPTH >= 40) { xpairs_build(); char nmx[160]; snprintf(nmx, sizeof nmx, "xpairs: every ordered pair of %d feature addresses x every ordered pair of 8 (mode, tld_check) configurations, on two objects and on one", NXP);
        mc_parallel(nmx, NXP, xpairs_shard, NULL);
        mc_parallel("unobserved: eav_errstr read for the first time only at the end (later / after eav_free / after a second call and eav_free), every feature address x 4 modes x tld on/off", NXP, unobserved_shard, NULL);
        polpairs_build(); snprintf(nmx, sizeof nmx, "polpairs: %d class / form representatives x 14 masks x 4 modes, each right after every one of %d feature addresses on the same object", NPOL, NXP);
        mc_parallel(nmx, NXP, polpairs_shard, NULL); }
    if (FAULTS) mc_parallel("direct is_utf8_domain with one shared idn-code variable: every code x buffer x tld_check x 6 follow-up names", 1, direct_runs, NULL);
    if (FAULTS) mc_parallel("fault lengths: every code x buffer x tld_check on names of 35 lengths (1..262 characters) with and without root dot", NCODES, fault_lengths, NULL);
    if (FAULTS) { CORPUS_DEEP = mc_thorough; if (corpus_load()) return 2;
        static const int PHF[] = { CP_IDN, CP_WHOLEDOM, CP_ALTDOT, CP_LONGIDN, CP_LPXDOM, CP_DEPTH, CP_BYTES };
        for (unsigned i = 0; i < sizeof PHF / sizeof PHF[0]; i++) { CURPH = PHF[i]; char nmf[96]; snprintf(nmf, sizeof nmf, "fault corpus (3 environment answers x tld on/off): %.40s", corpus_name(CURPH)); mc_parallel(nmf, corpus_shards(CURPH), fault_corpus_shard, NULL); } }
    if (FAULTS) mc_parallel("runs of n validations: single fault at every position x every code x buffer; double faults n<=6", mc_thorough ? 50 : 8, fault_runs, NULL);
    /* distinct non-trivial = states reached (each a distinct canonical object state) */
    if (mc_sh->ctr[C_NONTRIV] == 0 || !FAULTS) mc_sh->ctr[C_NONTRIV] += mc_sh->ctr[C_STATES];
    return mc_finish();
}
