/* corpus.h - the address generators of C01-C10, re-usable with any sink (C06, C12, C15, C16, C17).
 * Every phase is a complete enumeration of a stated finite space, sharded; nothing is sampled.
 *   corpus_nphases(), corpus_name(i), corpus_shards(i), corpus_run(i, shard, emit, arg)
 */
#ifndef CORPUS_H
#define CORPUS_H
#include "../mc/mc.h"
#include "../ref/ref_tld.h"

typedef void (*emit_fn)(const unsigned char *s, size_t n, void *arg);
static int CORPUS_DEEP;          /* thorough bounds */

/* ---- token alphabets ---- */
static const mc_tok_t CA_CROSS[] = { MC_TOK("a"), MC_TOK("1"), MC_TOK("."), MC_TOK("-"), MC_TOK("@"), MC_TOK("["), MC_TOK("]"), MC_TOK(":"), MC_TOK(" "), MC_TOK("("), MC_TOK("\x01"), MC_TOK("#") };
static const mc_tok_t CA_EMAIL[] = { MC_TOK("a"), MC_TOK("."), MC_TOK("@"), MC_TOK("["), MC_TOK("]"), MC_TOK("\""), MC_TOK("\\"), MC_TOK(" "), MC_TOK("1"), MC_TOK(":"), MC_TOK("-"), MC_TOK("\xd0\x96") };
static const mc_tok_t CA_LOCAL[] = { MC_TOK("a"), MC_TOK("."), MC_TOK("\""), MC_TOK("\\"), MC_TOK(" "), MC_TOK("\t"), MC_TOK("\r"), MC_TOK("\n"), MC_TOK("\x01"), MC_TOK("\x7f"), MC_TOK("("), MC_TOK("#"),
                                     MC_TOK("\x80"), MC_TOK("\xd0\x96"), MC_TOK("\xe9\xa6\x99"), MC_TOK("\xc3"), MC_TOK("\xf0\x9f\x98\x80") };
#define NCA_LOCAL 17
/* the inside of a quoted string, deeper: all strings of <= 6 (7) tokens over 7 classes between two quotes */
static const mc_tok_t CA_QIN[] = { MC_TOK("a"), MC_TOK("\\"), MC_TOK("\""), MC_TOK(" "), MC_TOK("\t"), MC_TOK("\r\n"), MC_TOK("\xd0\x96") };
static const mc_tok_t CA_DOM[] = { MC_TOK("a"), MC_TOK("Z"), MC_TOK("1"), MC_TOK("-"), MC_TOK("."), MC_TOK("_"), MC_TOK("!"), MC_TOK("\x80"), MC_TOK("\xd0\xb6") };
static const mc_tok_t CA_LIT[] = { MC_TOK("1"), MC_TOK("0"), MC_TOK("a"), MC_TOK("g"), MC_TOK(":"), MC_TOK("."), MC_TOK("IPv6:"), MC_TOK("]"), MC_TOK("[") };

typedef struct { emit_fn emit; void *arg; const char *pre, *post; } cwrap_t;
static void c_wrapped(const unsigned char *s, size_t n, int nt, void *arg) {
    (void)nt; cwrap_t *w = arg; unsigned char t[400]; size_t pl = strlen(w->pre), ql = strlen(w->post);
    if (pl + n + ql >= sizeof t) return;
    memcpy(t, w->pre, pl); memcpy(t + pl, s, n); memcpy(t + pl + n, w->post, ql);
    w->emit(t, pl + n + ql, w->arg);
}
static void c_enum(const mc_tok_t *A, int nA, int N, int k, long shard, const char *pre, const char *post, emit_fn emit, void *arg) {
    mc_enum_t e; memset(&e, 0, sizeof e); cwrap_t w = { emit, arg, pre, post };
    e.A = A; e.nA = nA; e.N = N; e.k = k; e.fn = c_wrapped; e.arg = &w;
    mc_enum_shard(&e, shard);
}
static long c_enum_shards(int nA, int k) { return mc_ipow(nA, k) + 1; }

/* strings found in the library objects (lib/checks.py: embedded_strings -> $MC_EMBED), plus eight fixed labels */
static char EMB[600][64]; static int NEMB;
static void emb_load(void) {
    static const char *const FIX[8] = { "com", "net", "org", "arpa", "uk", "museum", "aaa", "zzzzq" };
    NEMB = 0; for (int i = 0; i < 8; i++) snprintf(EMB[NEMB++], 64, "%s", FIX[i]);
    const char *p = getenv("MC_EMBED"); if (!p) return;
    FILE *f = fopen(p, "r"); if (!f) return;
    char l[256];
    while (NEMB < 600 && fgets(l, sizeof l, f)) { size_t n = strlen(l); while (n && (l[n - 1] == '\n' || l[n - 1] == '\r')) l[--n] = 0; if (n < 2 || n > 63) continue;
        int dup = 0; for (int i = 0; i < NEMB; i++) if (!strcmp(EMB[i], l)) dup = 1; if (!dup) snprintf(EMB[NEMB++], 64, "%s", l); }
    fclose(f);
}
static rt_csv_t CORPUS_RAW; static int corpus_loaded;
static int corpus_load(void) {
    if (corpus_loaded) return 0;
    if (rt_load()) return -1;
    char p[1024]; snprintf(p, sizeof p, "%s/data/raw.csv", rt_repo()); if (rt_read_csv(p, &CORPUS_RAW, 1)) return -1;
    emb_load();
    corpus_loaded = 1; return 0;
}

enum { CP_CROSS, CP_EMAIL, CP_LOCAL, CP_DOMAIN, CP_LITERAL, CP_TLD, CP_IDN, CP_BYTES, CP_LONG, CP_LONGIDN, CP_ALTDOT, CP_LABELLEN, CP_MAXLIT, CP_LPXDOM, CP_WHOLEDOM, CP_DEPTH, CP_EMBED, CP_SUBST, CP_SHORTLAB, CP_POSN, CP_WRAP, CP_EDIT, CP_SCALARS, CP_N };
static const char *corpus_name(int i) {
    static const char *n[] = {
        "cross: all strings over {a 1 . - @ [ ] : SP ( 0x01 #}",
        "email: all strings over {a . @ [ ] \" \\ SP 1 : - U+0416}",
        "local: all local parts over 17 classes x 4 domains, and inside a quoted string; quoted-string bodies of <= 6 tokens over {a \\ \" SP HT CRLF U+0416}",
        "domain: all domains over {a Z 1 - . _ ! 0x80 U+0436} after x@",
        "literal: all bracket contents over {1 0 a g : . IPv6: ] [} + structured v4/v6",
        "tld: every table row x prefixes, reserved names x prefixes x label lengths, near misses, single labels",
        "idn: 1-2 symbol labels of 8 scripts x suffixes, IDN TLD rows in U- and A-form",
        "bytes: every byte 0x01-0xFF at every position of 24 templates",
        "long: lengths 0..300, 1 KiB, 2 KiB, 64 KiB of 24 fillers with 0-1 deviations and inside 5 complete-address wrappers",
        "longidn: U-label domains of 1-7 labels x 8-56 letters, shared 255-byte prefixes back to back, soft-hyphen padding to 3 KiB",
        "altdot: reserved names and table rows spelled with U+3002/U+FF0E/U+FF61 dots and fullwidth letters",
        "labellen: labels of 58-70 characters with '_' / '-' tails in every position",
        "maxlit: maximal-length valid address literals followed by junk inside the brackets",
        "lpxdom: 40 local-part shapes (quoted colons, dots, brackets, '@', digits, tags) x 36 domain parts (literals of both families, host names)",
        "wholedom: every code point of U+0080-2FFF, U+FE00-FFFF, U+1BCA0-1BCAF, U+E0000-E01FF (thorough: every scalar) as the whole domain, doubled, as both labels, rooted, as last label",
        "depth: 24 suffixes (reserved names, reserved look-alikes, table rows of 6 classes, unlisted) behind every sequence of 0-4 labels over {a, test, example, com, xn--p1ai, invalid}",
        "embed: every string compiled into the library objects as last label, second-level label, and every ordered pair of them as the last two labels",
        "subst: every byte value substituted at every position of 14 complete addresses",
        "shortlab: every label of 1-2 characters and every 3-character label starting with a digit over [a-z0-9-], lower and upper case, in 4 positions",
        "posn: local parts of every length 1-66 (quick: 17 lengths around 1, 8, 16, 32, 64) filled with one letter, every byte 0x01-0xFF at every position",
        "wrap: every byte in front of and every byte behind 5 complete addresses (all 257 x 257 pairs incl. none), plus bracket/quote/scheme wrappers",
        "edit: every deletion of 1-3 adjacent bytes, every doubled byte and every swap of two adjacent bytes in 16 complete addresses",
        "scalars: every non-ASCII Unicode scalar value as an atom character, quoted (alone, after and before a space) and in a domain label" };
    return n[i];
}
static int corpus_N(int i) {
    switch (i) {
    case CP_CROSS: return CORPUS_DEEP ? 7 : 5;
    case CP_EMAIL: return CORPUS_DEEP ? 7 : 5;
    case CP_LOCAL: return CORPUS_DEEP ? 5 : 4;
    case CP_DOMAIN: return CORPUS_DEEP ? 7 : 5;
    case CP_LITERAL: return CORPUS_DEEP ? 7 : 5;
    }
    return 0;
}
static long corpus_shards(int i) {
    switch (i) {
    case CP_CROSS: return c_enum_shards(12, 2);
    case CP_EMAIL: return c_enum_shards(12, 2);
    case CP_LOCAL: return c_enum_shards(NCA_LOCAL, 2);
    case CP_DOMAIN: return c_enum_shards(9, 2);
    case CP_LITERAL: return c_enum_shards(9, 2) + 2;
    case CP_TLD: return RT_PUNY.n + 8 * 64 + 1;
    case CP_IDN: return 35 + 1;
    case CP_BYTES: return 24;
    case CP_LONG: return 24;
    case CP_LONGIDN: return 7 + 2;
    case CP_ALTDOT: return 8 + 1;
    case CP_LABELLEN: return 13;
    case CP_MAXLIT: return 6;
    case CP_LPXDOM: return 40;
    case CP_DEPTH: return 24;
    case CP_EMBED: return (NEMB + 7) / 8;
    case CP_SUBST: return 14;
    case CP_SHORTLAB: return 37;
    case CP_POSN: return CORPUS_DEEP ? 66 : 17;
    case CP_WRAP: return 5 * 257 + 1;
    case CP_EDIT: return 16;
    case CP_WHOLEDOM: return CORPUS_DEEP ? 0x110000 / 0x400 : 15;
    case CP_SCALARS: return 0x110000 / 0x1000;
    }
    return 0;
}

static const char *const C_TPL[24] = { "{b}x@y.zz", "x{b}@y.zz", "x{b}y@y.zz", "x@{b}y.zz", "x@y{b}.zz", "x@y.{b}zz", "x@y.zz{b}", "x@[{b}1.2.3.4]", "x@[1.2.3.4{b}]",
    "x@[1.2.3.4]{b}", "x@{b}[1.2.3.4]", "\"x{b}\"@y.zz", "\"x\"{b}@y.zz", "x.{b}@y.zz", "x@y.zz@{b}", "{b}@y.zz", "x@{b}", "\"x\\{b}\"@y.zz", "x{b}@[IPv6:::1]",
    "x@[IPv6:{b}::1]", "x@[IPv6:1{b}:2::3]", "\xd0\xb6{b}@y.zz", "x@\xd0\xb6{b}.zz", "\"{b}" };
static const char *const C_SYM[35] = { "\xd0\xb6", "\xd0\xb0", "\xd1\x8f", "\xd1\x91", "\xce\xb1", "\xce\xb2", "\xcf\x89", "\xe0\xa5\xa7", "\xe4\xb8\xad", "\xe6\x96\x87", "\xe7\xbd\x91", "\xe4\xb8\x80",
    "\xea\xb0\x80", "\xed\x95\x9c", "\xeb\xb0\x94", "\xec\x82\xbc", "\xd8\xa8", "\xd8\xaa", "\xd9\x85", "\xd9\xa3", "\xd7\x90", "\xd7\x91", "\xd7\xaa", "\xd7\x9d", "\xe0\xa4\x95", "\xe0\xa4\xae", "\xe0\xa4\xa8", "\xe0\xa5\xa9",
    "\xc3\xa9", "\xc3\xbc", "\xc3\xb1", "\xc3\x9f", "a", "1", "-" };
static const char *const C_RES[8] = { "test", "example", "invalid", "localhost", "onion", "example.com", "example.net", "example.org" };

static void c_emit_str(emit_fn emit, void *arg, const char *fmt, ...) {
    char b[4200]; va_list ap; va_start(ap, fmt); int n = vsnprintf(b, sizeof b, fmt, ap); va_end(ap);
    if (n > 0 && (size_t)n < sizeof b) emit((unsigned char *)b, (size_t)n, arg);
}

static void corpus_run(int ph, long shard, emit_fn emit, void *arg) {
    switch (ph) {
    case CP_CROSS: c_enum(CA_CROSS, 12, corpus_N(ph), 2, shard, "", "", emit, arg); break;
    case CP_EMAIL: c_enum(CA_EMAIL, 12, corpus_N(ph), 2, shard, "", "", emit, arg); break;
    case CP_LOCAL:
        c_enum(CA_LOCAL, NCA_LOCAL, corpus_N(ph), 2, shard, "", "@ok.com", emit, arg);
        c_enum(CA_LOCAL, NCA_LOCAL, corpus_N(ph) - 1, 2, shard, "", "@[192.0.2.1]", emit, arg);
        c_enum(CA_LOCAL, NCA_LOCAL, corpus_N(ph) - 1, 2, shard, "", "@bad..dom", emit, arg);
        c_enum(CA_LOCAL, NCA_LOCAL, corpus_N(ph) - 1, 2, shard, "", "@\xd0\xbf.\xd1\x80\xd1\x84", emit, arg);
        c_enum(CA_LOCAL, NCA_LOCAL, corpus_N(ph) - 1, 2, shard, "\"a", "\"@ok.com", emit, arg);
        if (shard <= mc_ipow(7, 2)) { c_enum(CA_QIN, 7, CORPUS_DEEP ? 7 : 6, 2, shard, "\"", "\"@ok.com", emit, arg); c_enum(CA_QIN, 7, CORPUS_DEEP ? 6 : 5, 2, shard, "x.\"", "\".y@ok.com", emit, arg); }     /* the same strings as the inside of a quoted string that already holds a character */
        break;
    case CP_DOMAIN:
        c_enum(CA_DOM, 9, corpus_N(ph), 2, shard, "x@", "", emit, arg);
        c_enum(CA_DOM, 9, corpus_N(ph) - 1, 2, shard, "x@", ".com", emit, arg);
        break;
    case CP_LITERAL: {
        long ns = c_enum_shards(9, 2);
        if (shard < ns) { c_enum(CA_LIT, 9, corpus_N(ph), 2, shard, "x@[", "]", emit, arg); c_enum(CA_LIT, 9, corpus_N(ph) - 2, 2, shard, "x@[1.2.3.4]", "", emit, arg); break; }
        if (shard == ns) {   /* structured dotted quads */
            static const char *const O[] = { "0", "1", "10", "99", "255", "256", "001", "" };
            for (int a = 0; a < 8; a++) for (int b = 0; b < 8; b++) for (int c = 0; c < 8; c++) for (int d = 0; d < 8; d++) c_emit_str(emit, arg, "x@[%s.%s.%s.%s]", O[a], O[b], O[c], O[d]);
            /* octets whose value only fits wider integers, and wraps to a small one in a narrow accumulator (2^8+k, 2^16+k, 2^31+k, 2^32+k, 2^64+k) */
            { static const char *const W[] = { "256", "257", "511", "65536", "65537", "65791", "2147483648", "2147483649", "4294967295", "4294967296", "4294967297", "4294967551", "8589934593",
                  "18446744073709551616", "18446744073709551617", "18446744073709551871", "00000000000000000000001", "0000000000255" };
              for (unsigned w = 0; w < sizeof W / sizeof W[0]; w++) for (int pos = 0; pos < 4; pos++) { const char *o[4] = { "1", "2", "3", "4" }; o[pos] = W[w];
                  c_emit_str(emit, arg, "x@[%s.%s.%s.%s]", o[0], o[1], o[2], o[3]); c_emit_str(emit, arg, "x@[IPv6:::ffff:%s.%s.%s.%s]", o[0], o[1], o[2], o[3]); c_emit_str(emit, arg, "x@[IPv6:1:2:3:4:5:6:%s.%s.%s.%s]", o[0], o[1], o[2], o[3]); } }
            for (int v = 0; v <= 300; v++) { c_emit_str(emit, arg, "x@[%d.2.3.4]", v); c_emit_str(emit, arg, "x@[1.2.3.%d]", v); c_emit_str(emit, arg, "x@[1.2.%d]", v); c_emit_str(emit, arg, "x@[1.2.3.4.%d]", v); }
        } else {             /* structured IPv6 */
            static const char *const TG[] = { "IPv6:", "ipv6:", "", "IPv4:", "foo:" }; static const char *const TL[] = { "", "1.2.3.4", "0.2.3.4", "1.2.3.256", "1.2.3" };
            for (int before = 0; before <= 8; before++) for (int after = 0; after <= 8; after++) for (int dc = 0; dc < 2; dc++) for (int tg = 0; tg < 5; tg++) for (int tl = 0; tl < 5; tl++) for (int w = 1; w <= 5; w += 2) {
                char c[300], *p = c; p += sprintf(p, "x@[%s", TG[tg]);
                for (int i = 0; i < before; i++) p += sprintf(p, "%s%s", i ? ":" : "", i == 0 && w != 1 ? (w == 3 ? "abc" : "abcde") : "ab");
                if (dc) p += sprintf(p, "::"); else if (before && (after || TL[tl][0])) p += sprintf(p, ":");
                for (int i = 0; i < after; i++) p += sprintf(p, "%s%s", i ? ":" : "", "cd");
                if (TL[tl][0]) p += sprintf(p, "%s%s", after ? ":" : "", TL[tl]);
                sprintf(p, "]"); c_emit_str(emit, arg, "%s", c);
            }
        }
    } break;
    case CP_TLD: {
        static const char *const PRE[] = { "a.", "abcdefg.", "example.", "A1-b.c.", "" };
        if (shard < RT_PUNY.n) {
            const char *t = RT_PUNY.row[shard].domain;
            for (int p = 0; p < 5; p++) { c_emit_str(emit, arg, "x@%s%s", PRE[p], t); }
            char up[300]; snprintf(up, sizeof up, "%s", t); for (char *q = up; *q; q++) *q = (char)toupper((unsigned char)*q);
            c_emit_str(emit, arg, "x@a.%s", up); c_emit_str(emit, arg, "x@%s.zzzzq", t); c_emit_str(emit, arg, "x@a.%sx", t); c_emit_str(emit, arg, "x@a.x%s", t);
            if (strlen(t) > 1) { char cut[300]; snprintf(cut, sizeof cut, "%s", t); cut[strlen(cut) - 1] = 0; c_emit_str(emit, arg, "x@a.%s", cut); }
            /* one character replaced by its arithmetic "case partner" (+-32, ^0x20, ^0x40, ^0x10): '1' ~ 'Q', '-' ~ 'M', 'a' ~ '!' ... where that is a letter, digit
             * or hyphen again - a label that only a hand-written case fold equates with the row */
            { size_t tl = strlen(t); char nb[300]; if (tl < sizeof nb) for (size_t q = 0; q < tl; q++) { static const int D[] = { 32, -32, 64, -64, 16, -16 };
                for (int di = 0; di < 6; di++) { int c = (unsigned char)t[q] + D[di]; if (!(isalnum(c) || c == '-') || c > 126 || tolower(c) == tolower((unsigned char)t[q])) continue;
                    if (c == '-' && (q == 0 || q + 1 == tl)) continue;
                    memcpy(nb, t, tl + 1); nb[q] = (char)c; c_emit_str(emit, arg, "x@a.%s", nb); } } }
            if (shard < CORPUS_RAW.n) { c_emit_str(emit, arg, "x@a.%s", CORPUS_RAW.row[shard].domain); c_emit_str(emit, arg, "\xd0\xb6@%s.%s", CORPUS_RAW.row[shard].domain, CORPUS_RAW.row[shard].domain); }
        } else if (shard < RT_PUNY.n + 8 * 64) {
            long k = shard - RT_PUNY.n; int ri = (int)(k % 8), len = (int)(k / 8);
            char lab[80]; for (int i = 0; i < len; i++) lab[i] = (char)('a' + i % 26); lab[len] = 0;
            if (len) { c_emit_str(emit, arg, "x@%s.%s", lab, C_RES[ri]); c_emit_str(emit, arg, "x@q.%s.%s", lab, C_RES[ri]); }
            else { c_emit_str(emit, arg, "x@%s", C_RES[ri]); char up[32]; snprintf(up, sizeof up, "%s", C_RES[ri]); up[0] = (char)toupper((unsigned char)up[0]); c_emit_str(emit, arg, "x@%s", up);
                   c_emit_str(emit, arg, "x@%sA", C_RES[ri]); c_emit_str(emit, arg, "x@x%s", C_RES[ri]); c_emit_str(emit, arg, "x@a.%ss", C_RES[ri]); c_emit_str(emit, arg, "x@%s.", C_RES[ri]); }
        } else {
            for (int ri = 0; ri < 8; ri++) for (int root = 0; root < 2; root++) { const char *dot = root ? "." : "";
                c_emit_str(emit, arg, "x@mail.%s.com%s", C_RES[ri], dot); c_emit_str(emit, arg, "x@www.%s.org%s", C_RES[ri], dot); c_emit_str(emit, arg, "x@a.b.%s%s", C_RES[ri], dot);
                c_emit_str(emit, arg, "x@%s.com.au%s", C_RES[ri], dot); c_emit_str(emit, arg, "x@a.b.c.%s%s", C_RES[ri], dot); c_emit_str(emit, arg, "x@%s.%s%s", C_RES[ri], C_RES[(ri + 1) % 8], dot);
                c_emit_str(emit, arg, "x@abcdefg.%s.zzzzq%s", C_RES[ri], dot); c_emit_str(emit, arg, "x@%s.a%s", C_RES[ri], dot); }
            /* reserved labels extended by 1-3 characters at either end */
            { static const char EXT[] = "aly1-x"; for (int ri = 0; ri < 5; ri++) for (int a = 0; a < 6; a++) for (int b = -1; b < 6; b++) for (int c = -1; c < (b < 0 ? 0 : 6); c++) {
                char e[8]; int l = 0; e[l++] = EXT[a]; if (b >= 0) e[l++] = EXT[b]; if (c >= 0) e[l++] = EXT[c]; e[l] = 0;
                c_emit_str(emit, arg, "x@m.%s%s", C_RES[ri], e); c_emit_str(emit, arg, "x@%s%s", C_RES[ri], e); if (e[0] != '-') c_emit_str(emit, arg, "x@m.%s%s", e, C_RES[ri]); } }
            static const char *const M[] = { "x@singlelabel", "x@a", "x@a.b", "x@com", "x@a.com.", "x@1.2", "x@a.123", "x@123.com", "x@a-.com", "x@a.c-m", "x@xn--p1ai", "x@xn--.com", "x@a.xn--p1ai", "x@a.XN--P1AI" };
            for (unsigned i = 0; i < sizeof M / sizeof M[0]; i++) c_emit_str(emit, arg, "%s", M[i]);
        }
    } break;
    case CP_IDN: {
        static const char *const SUF[] = { "\xd1\x80\xd1\x84", "com", "zzzzq", "example", "ac" };
        if (shard < 35) {
            for (int j = -1; j < 35; j++) for (int f = 0; f < 5; f++) {
                if (j < 0) { c_emit_str(emit, arg, "x@%s.%s", C_SYM[shard], SUF[f]); c_emit_str(emit, arg, "x@%s", C_SYM[shard]); }
                else { c_emit_str(emit, arg, "x@%s%s.%s", C_SYM[shard], C_SYM[j], SUF[f]); c_emit_str(emit, arg, "x@%s.%s.%s", C_SYM[shard], C_SYM[j], SUF[f]);
                       if (f == 0) c_emit_str(emit, arg, "%s%s@%s.%s", C_SYM[shard], C_SYM[j], C_SYM[j], SUF[1]); }
            }
        } else {
            static const char *const NEG[] = { "x@\xe2\x99\xa5.de", "x@-\xd0\xb6.com", "x@\xd0\xb6-.com", "x@ab--\xd0\xb6.com", "x@ab--cd.com", "x@xn--.com", "x@\xd0\xb6..com", "x@\xd0\xb6.com.", "x@\xd0\xb6 .com",
                "x@\xd0\xb6_\xd0\xb6.com", "x@a\xff" "b.com", "x@a\xc3.com", "x@\xd0\x96.COM", "x@\xc3\x9f.de", "x@\xd8\xa8" "a.com" };
            for (unsigned i = 0; i < sizeof NEG / sizeof NEG[0]; i++) c_emit_str(emit, arg, "%s", NEG[i]);
            for (int k = 1; k <= 40; k += 3) for (int asc = 0; asc <= 63; asc += 7) { char d[300]; int l = 0; d[l++] = 'x'; d[l++] = '@'; for (int i = 0; i < asc; i++) d[l++] = 'a';
                for (int i = 0; i < k; i++) { d[l++] = (char)0xd0; d[l++] = (char)(0xb0 + i % 16); } memcpy(d + l, ".com", 5); c_emit_str(emit, arg, "%s", d); }
        }
    } break;
    case CP_BYTES: {
        const char *t = C_TPL[shard]; const char *h = strstr(t, "{b}"); size_t pre = (size_t)(h - t), post = strlen(h + 3); unsigned char s[96];
        memcpy(s, t, pre); memcpy(s + pre, h + 3, post); emit(s, pre + post, arg);
        for (int b = 1; b < 256; b++) { memcpy(s, t, pre); s[pre] = (unsigned char)b; memcpy(s + pre + 1, h + 3, post); emit(s, pre + 1 + post, arg);
            if (CORPUS_DEEP || b % 16 == 1 || b >= 0x7e || b < 0x30) for (int b2 = 1; b2 < 256; b2 += (CORPUS_DEEP ? 1 : 5)) { s[pre + 1] = (unsigned char)b2; memcpy(s + pre + 2, h + 3, post); emit(s, pre + 2 + post, arg); } }
    } break;
    case CP_LONG: {
        static const char *const F[24] = { "a", ".", "\"", "\\", "-", "1", ":", "@", "[", "\xd0\x96", "\xff", "a.",
            "0.", "1.", "0", "0:", "1:", "::", " ", "\r\n ", "\\\"", "a-", "xn--", "\xc2\xad" };
        /* every filler also as the body of a complete address: inside literal brackets (untagged and tagged), inside a quoted local part, as a host name, as a local part */
        static const char *const WR[5][2] = { { "x@[", "]" }, { "x@[IPv6:", "]" }, { "\"", "\"@b.com" }, { "x@", ".com" }, { "", "@b.com" } };
        static unsigned char big[70000];
        const char *f = F[shard]; size_t fl = strlen(f);
        static const int lens[] = { 0, 1, 2, 3, 4, 5, 6, 7, 8, 9, 10, 15, 16, 17, 31, 32, 33, 62, 63, 64, 65, 66, 100, 127, 128, 129, 200, 252, 253, 254, 255, 256, 257, 300, 1024, 2048, 65536 };
        static const char *const DEV[] = { "", "@", "x@", "@b.com", "x@[", "]", "\"", "." };
        for (unsigned li = 0; li < sizeof lens / sizeof lens[0]; li++) for (int dv = 0; dv < 8; dv++) for (int where = 0; where < 3; where++) {
            size_t l = 0, reps = (size_t)lens[li]; const char *dvs = DEV[dv]; size_t dl = strlen(dvs);
            if (dv == 0 && where) continue;
            if (reps * fl + dl + 1 > sizeof big) continue;
            if (where == 0) { memcpy(big, dvs, dl); l = dl; }
            for (size_t i = 0; i < reps; i++) { if (where == 1 && i == reps / 2) { memcpy(big + l, dvs, dl); l += dl; } memcpy(big + l, f, fl); l += fl; }
            if (where == 2) { memcpy(big + l, dvs, dl); l += dl; }
            big[l] = 0; emit(big, l, arg);
        }
        for (unsigned li = 0; li < sizeof lens / sizeof lens[0]; li++) for (int w = 0; w < 5; w++) {
            size_t reps = (size_t)lens[li], a = strlen(WR[w][0]), b = strlen(WR[w][1]), l = 0;
            if (reps * fl + a + b + 1 > sizeof big) continue;
            memcpy(big, WR[w][0], a); l = a; for (size_t i = 0; i < reps; i++) { memcpy(big + l, f, fl); l += fl; }
            /* a complete last element where the filler leaves a separator dangling: 0.0.0.0 / 0:0:...:0 / a.a.a */
            if (fl == 2 && (f[1] == '.' || f[1] == ':') && reps) { big[l++] = (unsigned char)f[0]; }
            memcpy(big + l, WR[w][1], b); l += b; big[l] = 0; emit(big, l, arg);
        }
    } break;
    case CP_LONGIDN: {
        static const char *const SF[5] = { "\xd1\x80\xd1\x84", "com", "zzzzq", "example", "ac" };
        if (shard < 7) {
            int nl = (int)shard + 1;
            for (int per = 8; per <= 56; per += 4) for (int three = 0; three < 2; three++) for (int sf = 0; sf < 5; sf++) {
                char d[1600]; int l = 0;
                for (int k = 0; k < nl; k++) { for (int i = 0; i < per; i++) { if (three) { d[l++] = (char)0xe4; d[l++] = (char)0xb8; d[l++] = (char)(0x80 + (i * 7 + k) % 48); } else { d[l++] = (char)0xd0; d[l++] = (char)(0xb0 + (i + k) % 16); } } d[l++] = '.'; }
                d[l] = 0; c_emit_str(emit, arg, "x@%s%s", d, SF[sf]);
            }
        } else if (shard == 7) {
            /* the same long prefix (>= 255 bytes of UTF-8) with different last labels, validated back to back, twice */
            for (int pl = 0; pl < 3; pl++) {
                char P[900]; int l = 0; int per = 30 + pl * 10, nl = 5 - pl;
                for (int k = 0; k < nl; k++) { for (int i = 0; i < per; i++) { P[l++] = (char)0xd0; P[l++] = (char)(0xb0 + (i + 3 * k) % 16); } P[l++] = '.'; }
                P[l] = 0;
                static const char *const T[] = { "com", "zzzzq", "\xd1\x80\xd1\x84", "\xd0\xbc\xd0\xbe\xd1\x81\xd0\xba\xd0\xb2\xd0\xb0", "com", "\xe2\x99\xa5", "a\xff", "org", "-a", "example", "com" };
                for (int rep = 0; rep < 2; rep++) for (unsigned t = 0; t < sizeof T / sizeof T[0]; t++) c_emit_str(emit, arg, "x@%s%s", P, T[t]);
            }
        } else {
            /* soft hyphens (mapped to nothing by IDNA) pad the UTF-8 spelling far beyond any buffer while the A-label form stays tiny */
            static const int K[] = { 1, 50, 120, 127, 128, 300, 509, 510, 511, 512, 600, 1021, 1022, 1023, 1024, 1500 };
            static const char *const TAIL[] = { ".com", ".com..", "-.com", ".c!m", ".com.", "..com", ".zzzzq", ".example", "", ".-com", ".com-" };
            for (unsigned ki = 0; ki < sizeof K / sizeof K[0]; ki++) for (unsigned t = 0; t < sizeof TAIL / sizeof TAIL[0]; t++) for (int lead = 0; lead < 2; lead++) {
                static char d[3300]; int l = 0; d[l++] = 'x'; d[l++] = '@'; if (lead) d[l++] = 'a';
                for (int i = 0; i < K[ki]; i++) { d[l++] = (char)0xc2; d[l++] = (char)0xad; }
                if (!lead) d[l++] = 'b';
                strcpy(d + l, TAIL[t]); emit((unsigned char *)d, strlen(d), arg);
            }
        }
    } break;
    case CP_ALTDOT: {
        static const char *const DOT[4] = { ".", "\xe3\x80\x82", "\xef\xbc\x8e", "\xef\xbd\xa1" };
        char fw[200];
        const char *names[9]; int nn = 0;
        if (shard < 8) names[nn++] = C_RES[shard];
        else { names[nn++] = "com"; names[nn++] = "ac"; names[nn++] = "museum"; names[nn++] = "xn--p1ai"; names[nn++] = "zzzzq"; }
        for (int k = 0; k < nn; k++) {
            const char *nm = names[k];
            /* fullwidth spelling of the ASCII letters (U+FF41 + c - 'a'), dots kept */
            int l = 0; for (const char *q = nm; *q; q++) { if (*q >= 'a' && *q <= 'z') { fw[l++] = (char)0xef; fw[l++] = (char)0xbd; fw[l++] = (char)(0x81 + (*q - 'a')); } else fw[l++] = *q; } fw[l] = 0;
            for (int d1 = 0; d1 < 4; d1++) for (int d2 = 0; d2 < 4; d2++) {
                /* the name's own inner dot (example.com) spelled with d2, the joining dot with d1 */
                char nm2[200]; int m = 0; for (const char *q = nm; *q; q++) { if (*q == '.') { strcpy(nm2 + m, DOT[d2]); m += (int)strlen(DOT[d2]); } else nm2[m++] = *q; } nm2[m] = 0;
                char fw2[300]; m = 0; for (const char *q = fw; *q; q++) { if (*q == '.') { strcpy(fw2 + m, DOT[d2]); m += (int)strlen(DOT[d2]); } else fw2[m++] = *q; } fw2[m] = 0;
                c_emit_str(emit, arg, "x@mail%s%s", DOT[d1], nm2); c_emit_str(emit, arg, "x@abcdefg%s%s", DOT[d1], nm2);
                c_emit_str(emit, arg, "x@mail%s%s", DOT[d1], fw2); c_emit_str(emit, arg, "x@\xd0\xb6%s%s", DOT[d1], nm2);
                if (d1 == 0) { c_emit_str(emit, arg, "x@%s", nm2); c_emit_str(emit, arg, "x@%s", fw2); c_emit_str(emit, arg, "x@%s%s", nm2, DOT[d2]); }
            }
        }
    } break;
    case CP_LABELLEN: {
        int len = 58 + (int)shard;       /* 58..70 */
        if (shard == 0) for (int big = 100; big <= 1600; big *= 2) { static char L[1700]; memset(L, 'q', (size_t)big); L[big] = 0;
            c_emit_str(emit, arg, "x@example.%s", L); c_emit_str(emit, arg, "x@a.%s", L); c_emit_str(emit, arg, "x@%s.example.org", L); c_emit_str(emit, arg, "x@%s", L); }
        static const char *const SHAPE[] = { "", "_", "__", "____", "-", "-a", "_a", "a_", "1", "-_" };   /* tail of the label */
        for (unsigned sh = 0; sh < sizeof SHAPE / sizeof SHAPE[0]; sh++) {
            char lab[96]; int tl = (int)strlen(SHAPE[sh]); if (tl > len) continue;
            for (int i = 0; i < len - tl; i++) lab[i] = (char)('a' + i % 26); memcpy(lab + len - tl, SHAPE[sh], (size_t)tl); lab[len] = 0;
            c_emit_str(emit, arg, "x@%s.com", lab); c_emit_str(emit, arg, "x@a.%s", lab); c_emit_str(emit, arg, "x@a.%s.com", lab); c_emit_str(emit, arg, "x@%s", lab); c_emit_str(emit, arg, "x@a.%s.", lab);
            c_emit_str(emit, arg, "x@example.%s", lab); c_emit_str(emit, arg, "x@a.EXAMPLE.%s.", lab); c_emit_str(emit, arg, "x@abcdefg.%s", lab); c_emit_str(emit, arg, "x@%s.test", lab); c_emit_str(emit, arg, "x@%s.example.com", lab);
            /* the special character exactly at the 64th position of a longer label */
            if (len >= 65) for (const char *sp = "_-"; *sp; sp++) { for (int i = 0; i < len; i++) lab[i] = (char)('a' + i % 26); lab[63] = *sp; lab[len] = 0; c_emit_str(emit, arg, "x@%s.com", lab); c_emit_str(emit, arg, "x@a.%s", lab); }
        }
    } break;
    case CP_POSN: {        /* WHERE in a local part of a given length a character stands: a copy into a fixed buffer, a clamp or an off-by-one at a length limit only shows at one (length, position) */
        static const int QL[17] = { 1, 2, 3, 7, 8, 9, 15, 16, 17, 31, 32, 33, 62, 63, 64, 65, 66 };
        int len = CORPUS_DEEP ? (int)shard + 1 : QL[shard]; unsigned char u[128];
        for (int p = 0; p < len; p++) for (int b = 1; b < 256; b++) {
            memset(u, 'a', (size_t)len); u[p] = (unsigned char)b; memcpy(u + len, "@ok.com", 7); emit(u, (size_t)len + 7, arg);
            if (b == '"' && p + 1 < len && len >= 3) { u[len - 1] = '"'; emit(u, (size_t)len + 7, arg); }       /* a quoted string from p to the end */
            if (b == 0xd0 && p + 1 < len) { u[p + 1] = 0x96; emit(u, (size_t)len + 7, arg); }                    /* a 2-octet character at p */
        }
    } break;
    case CP_WRAP: {        /* decoration AROUND a complete address that a tolerant parser would strip: <a@b>, (a@b), "a@b", mailto:a@b, a@b; ... */
        static const char *const B[5] = { "user@mail.host", "user@example.com", "user@[192.0.2.1]", "\"u s\"@a.org", "u@\xd0\xb6.\xd1\x80\xd1\x84" };
        if (shard == 5 * 257) {
            static const char *const W[][2] = { { "<", ">" }, { "(", ")" }, { "[", "]" }, { "{", "}" }, { "\"", "\"" }, { "'", "'" }, { "mailto:", "" }, { "MAILTO:", "" }, { "smtp:", "" }, { "<mailto:", ">" }, { "Name <", ">" },
                { "\"Name\" <", ">" }, { "", " (comment)" }, { "(comment) ", "" }, { "", ";" }, { "", "," }, { " ", " " }, { "\t", "\t" }, { "", "\r\n" }, { "", "\n" }, { "\r\n ", "" }, { "<<", ">>" }, { "<", "" }, { "", ">" }, { "@x:", "" }, { "@x,@y:", "" },
                { "<@x:", ">" }, { "x!", "" }, { "x%", "" }, { "", "?subject=x" }, { "", "%x" }, { "=?utf-8?q?", "?=" } };
            for (unsigned w = 0; w < sizeof W / sizeof W[0]; w++) for (int k = 0; k < 5; k++) { c_emit_str(emit, arg, "%s%s%s", W[w][0], B[k], W[w][1]);
                const char *at = strrchr(B[k], '@'); char lp[32]; snprintf(lp, sizeof lp, "%.*s", (int)(at - B[k]), B[k]);
                c_emit_str(emit, arg, "%s%s%s%s", W[w][0], lp, W[w][1], at);                    /* the same decoration around the local part only */
                c_emit_str(emit, arg, "%s@%s%s%s", lp, W[w][0], at + 1, W[w][1]); }            /* ... and around the domain only */
            break;
        }
        const char *t = B[shard / 257]; size_t n = strlen(t); int pre = (int)(shard % 257); unsigned char u[64];
        for (int suf = 0; suf < 257; suf++) { size_t l = 0; if (pre) u[l++] = (unsigned char)pre; memcpy(u + l, t, n); l += n; if (suf) u[l++] = (unsigned char)suf; emit(u, l, arg); }
    } break;
    case CP_EDIT: {        /* a keyword or separator that is SHORTENED (IPv:, IP6:, exampe.com, tst) or doubled is only reached by deletion / duplication, not by substitution */
        static const char *const B[16] = { "x@[IPv6:::1]", "x@[ipv6:1:2:3:4:5:6:7:8]", "x@[IPv6:1:2:3:4:5:6:1.2.3.4]", "x@[192.168.100.200]", "x@[::1.2.3.4]", "\"a b\"@c.de", "a.b@c-d.ef", "x@xn--p1ai.com",
            "x@example.com", "x@a.test", "\"a\\\"b\".c@d.org", "x@mail.localhost", "x@\xd0\xb6.\xd1\x80\xd1\x84", "\xd0\xb6@a.museum", "x@a.invalid", "first.last@sub.example.org" };
        const char *t = B[shard]; size_t n = strlen(t); unsigned char u[96];
        for (size_t p = 0; p < n; p++) {
            for (size_t k = 1; k <= 3 && p + k <= n; k++) { memcpy(u, t, p); memcpy(u + p, t + p + k, n - p - k); emit(u, n - k, arg); }          /* deletion of k bytes at p */
            memcpy(u, t, p + 1); u[p + 1] = (unsigned char)t[p]; memcpy(u + p + 2, t + p + 1, n - p - 1); emit(u, n + 1, arg);                 /* byte doubled */
            if (p + 1 < n && t[p] != t[p + 1]) { memcpy(u, t, n); u[p] = (unsigned char)t[p + 1]; u[p + 1] = (unsigned char)t[p]; emit(u, n, arg); }   /* neighbours swapped */
        }
    } break;
    case CP_SCALARS: {
        unsigned long lo = (unsigned long)shard * 0x1000, hi = lo + 0x1000;
        for (unsigned long cp = lo; cp < hi; cp++) {
            if (cp < 0x80 || (cp >= 0xd800 && cp <= 0xdfff)) continue;
            char u[8]; int l = 0;
            if (cp < 0x800) { u[l++] = (char)(0xc0 | (cp >> 6)); u[l++] = (char)(0x80 | (cp & 0x3f)); }
            else if (cp < 0x10000) { u[l++] = (char)(0xe0 | (cp >> 12)); u[l++] = (char)(0x80 | ((cp >> 6) & 0x3f)); u[l++] = (char)(0x80 | (cp & 0x3f)); }
            else { u[l++] = (char)(0xf0 | (cp >> 18)); u[l++] = (char)(0x80 | ((cp >> 12) & 0x3f)); u[l++] = (char)(0x80 | ((cp >> 6) & 0x3f)); u[l++] = (char)(0x80 | (cp & 0x3f)); }
            u[l] = 0;
            c_emit_str(emit, arg, "a%sb@ok.com", u);
            if (CORPUS_DEEP || (cp & 0xf) == 0xe || cp < 0x3000) { c_emit_str(emit, arg, "\"%s\"@ok.com", u); c_emit_str(emit, arg, "x@%s.com", u); c_emit_str(emit, arg, "\"a %s\"@ok.com", u); c_emit_str(emit, arg, "\"%s a\"@ok.com", u); }
        }
    } break;
    case CP_WHOLEDOM: {    /* a domain that consists of nothing but one code point: code points that IDNA maps to nothing give an EMPTY converted name */
        unsigned long lo;
        if (CORPUS_DEEP) lo = (unsigned long)shard * 0x400;
        else { static const unsigned long BASE[] = { 0, 0x400, 0x800, 0xc00, 0x1000, 0x1400, 0x1800, 0x1c00, 0x2000, 0x2400, 0x2800, 0x2c00, 0xfe00 - 0x200, 0x1bc00, 0xe0000 }; lo = BASE[shard]; }
        for (unsigned long cp = lo; cp < lo + 0x400; cp++) {
            if (cp < 0x80 || (cp >= 0xd800 && cp <= 0xdfff) || cp > 0x10ffff) continue;
            char u[8]; int l = 0;
            if (cp < 0x800) { u[l++] = (char)(0xc0 | (cp >> 6)); u[l++] = (char)(0x80 | (cp & 0x3f)); }
            else if (cp < 0x10000) { u[l++] = (char)(0xe0 | (cp >> 12)); u[l++] = (char)(0x80 | ((cp >> 6) & 0x3f)); u[l++] = (char)(0x80 | (cp & 0x3f)); }
            else { u[l++] = (char)(0xf0 | (cp >> 18)); u[l++] = (char)(0x80 | ((cp >> 12) & 0x3f)); u[l++] = (char)(0x80 | ((cp >> 6) & 0x3f)); u[l++] = (char)(0x80 | (cp & 0x3f)); }
            u[l] = 0;
            c_emit_str(emit, arg, "x@%s", u); c_emit_str(emit, arg, "x@%s%s", u, u); c_emit_str(emit, arg, "x@%s.%s", u, u); c_emit_str(emit, arg, "x@%s.", u); c_emit_str(emit, arg, "x@a.%s", u);
        }
    } break;
    case CP_SUBST: {       /* a keyword, tag, separator or quote replaced by a look-alike byte is only reached by substitution */
        static const char *const B[14] = { "x@[IPv6:::1]", "x@[ipv6:1:2:3:4:5:6:7:8]", "x@[IPv6:1:2:3:4:5:6:1.2.3.4]", "x@[1.2.3.4]", "x@[::1]", "\"a b\"@c.de", "a.b@c-d.ef", "x@xn--p1ai.com",
            "x@example.com", "x@a.test", "\"a\\\"b\".c@d.org", "x@localhost", "x@\xd0\xb6.\xd1\x80\xd1\x84", "\xd0\xb6@a.museum" };
        const char *t = B[shard]; size_t n = strlen(t); unsigned char u[64];
        for (size_t p = 0; p < n; p++) for (int b = 1; b < 256; b++) { if (b == (unsigned char)t[p]) continue; memcpy(u, t, n); u[p] = (unsigned char)b; emit(u, n, arg); }
    } break;
    case CP_SHORTLAB: {    /* short labels with a meaning somewhere else: 0x1, 0b1, 1e9, 10, ff, -1 ... as the whole name, first label, last label */
        static const char AL[] = "abcdefghijklmnopqrstuvwxyz0123456789-"; char L[3][8]; int nl = 0;
        char c0 = AL[shard];
        snprintf(L[0], 8, "%c", c0); c_emit_str(emit, arg, "x@%s", L[0]); c_emit_str(emit, arg, "x@%s.com", L[0]); c_emit_str(emit, arg, "x@a.%s", L[0]);
        for (int b = 0; b < 37; b++) {
            char l2[4] = { c0, AL[b], 0, 0 }, U2[4] = { (char)toupper((unsigned char)c0), (char)toupper((unsigned char)AL[b]), 0, 0 };
            c_emit_str(emit, arg, "x@%s", l2); c_emit_str(emit, arg, "x@%s.com", l2); c_emit_str(emit, arg, "x@1.%s", l2); c_emit_str(emit, arg, "x@%s.0.0.1", l2);
            c_emit_str(emit, arg, "x@%s", U2); c_emit_str(emit, arg, "x@%s.com", U2); c_emit_str(emit, arg, "x@1.%s", U2); c_emit_str(emit, arg, "x@%s.0.0.1", U2);
            if (c0 >= '0' && c0 <= '9') for (int c = 0; c < 37; c++) {
                char l3[4] = { c0, AL[b], AL[c], 0 }, U3[4] = { c0, (char)toupper((unsigned char)AL[b]), (char)toupper((unsigned char)AL[c]), 0 };
                c_emit_str(emit, arg, "x@%s", l3); c_emit_str(emit, arg, "x@%s.com", l3); c_emit_str(emit, arg, "x@1.%s", l3); c_emit_str(emit, arg, "x@%s.0.0.1", l3);
                c_emit_str(emit, arg, "x@%s", U3); c_emit_str(emit, arg, "x@%s.com", U3); c_emit_str(emit, arg, "x@1.%s", U3); c_emit_str(emit, arg, "x@%s.0.0.1", U3);
            }
        }
        (void)L; (void)nl;
    } break;
    case CP_EMBED: {       /* a name the library treats specially is spelled somewhere in its objects: every embedded string in the places where names are looked at */
        for (long i = shard * 8; i < shard * 8 + 8 && i < NEMB; i++) {
            const char *o = EMB[i]; char u[64]; size_t k = 0; for (; o[k]; k++) u[k] = (char)toupper((unsigned char)o[k]); u[k] = 0;
            c_emit_str(emit, arg, "x@%s", o); c_emit_str(emit, arg, "x@a.%s", o); c_emit_str(emit, arg, "x@a.b.%s", o); c_emit_str(emit, arg, "x@%s", u); c_emit_str(emit, arg, "x@a.%s", u);
            c_emit_str(emit, arg, "x@%s.", o); c_emit_str(emit, arg, "x@a.%s.", o); c_emit_str(emit, arg, "%s@%s.%s", o, o, o);
            for (int j = 0; j < NEMB; j++) { c_emit_str(emit, arg, "x@%s.%s", o, EMB[j]); c_emit_str(emit, arg, "x@a.%s.%s", o, EMB[j]); }
        }
    } break;
    case CP_DEPTH: {       /* label DEPTH: what stands in front of the last one or two labels, and how many labels there are, must not matter */
        static const char *const SUF[24] = { "test", "example", "invalid", "localhost", "onion", "example.com", "example.net", "example.org", "examples.com", "example.co", "test.com", "localhost.org",
            "com", "org", "arpa", "museum", "uk", "xn--p1ai", "aaa", "zzzzq", "co.uk", "com.example", "net.test", "example.example" };
        static const char *const LB[6] = { "a", "test", "example", "com", "xn--p1ai", "invalid" };
        const char *sf = SUF[shard]; char d[300];
        c_emit_str(emit, arg, "x@%s", sf);
        { char U[64]; size_t k = 0; for (; sf[k]; k++) U[k] = (char)toupper((unsigned char)sf[k]); U[k] = 0;      /* upper case, rooted, both - bare and behind one label */
          c_emit_str(emit, arg, "x@%s", U); c_emit_str(emit, arg, "x@%s.", sf); c_emit_str(emit, arg, "x@%s.", U);
          c_emit_str(emit, arg, "x@host.%s", U); c_emit_str(emit, arg, "x@host.%s.", sf); c_emit_str(emit, arg, "x@host.%s.", U); c_emit_str(emit, arg, "x@HOST.%s.", U); }
        for (int a = 0; a < 6; a++) { c_emit_str(emit, arg, "x@%s.%s", LB[a], sf);
            for (int b = 0; b < 6; b++) { c_emit_str(emit, arg, "x@%s.%s.%s", LB[b], LB[a], sf);
                for (int c = 0; c < 6; c++) { c_emit_str(emit, arg, "x@%s.%s.%s.%s", LB[c], LB[b], LB[a], sf);
                    for (int e = 0; e < 6; e++) c_emit_str(emit, arg, "x@%s.%s.%s.%s.%s", LB[e], LB[c], LB[b], LB[a], sf); } } }
        /* look-alikes of the reserved names: every proper prefix and proper suffix of the reserved label in its place (ex.com, ample.org, tes, nion ...) */
        if (shard < 8) { const char *dot = strchr(sf, '.'); size_t fl = dot ? (size_t)(dot - sf) : strlen(sf); const char *rest = dot ? dot : "";
            for (size_t k = 1; k < fl; k++) { char pfx[32], sfx[32]; memcpy(pfx, sf, k); pfx[k] = 0; memcpy(sfx, sf + fl - k, k); sfx[k] = 0;
                c_emit_str(emit, arg, "x@%s%s", pfx, rest); c_emit_str(emit, arg, "x@a.%s%s", pfx, rest); c_emit_str(emit, arg, "x@a.b.%s%s", pfx, rest);
                c_emit_str(emit, arg, "x@%s%s", sfx, rest); c_emit_str(emit, arg, "x@a.%s%s", sfx, rest); c_emit_str(emit, arg, "x@a.b.%s%s", sfx, rest); } }
        /* many one-letter labels in front: 5..130 labels */
        for (int n = 5; n <= 130; n++) { int l = 0; for (int i = 0; i < n && l < 252; i++) { d[l++] = (char)(i % 2 ? 0x62 : 0x61); d[l++] = 0x2e; } d[l] = 0; if ((size_t)l + strlen(sf) <= 253) c_emit_str(emit, arg, "x@%s%s", d, sf); }
    } break;
    case CP_LPXDOM: {      /* what the domain-part parsers search for (':', '.', ']', '[', '@', digits, the IPv6 tag) placed inside the local part */
        static const char *const LP[40] = { "x", "a.b", "a1", "1", "1.2.3.4", "\"a:b\"", "\":\"", "\"::\"", "\"a.b\"", "\"1.2.3.4\"", "\"]\"", "\"[\"", "\"[1.2.3.4]\"", "\"@\"", "\"a@b\"",
            "\"x@[IPv6:::1]\"", "\"IPv6:\"", "\"IPv6:1::2\"", "\"a\\:b\"", "\"a\\]b\"", "\"a\\@b\"", "\"a b\"", "\" \"", "a.\"b:c\"", "\"a:b\".c", "a-b", "a+b", "a_b", "a=b", "a/b",
            "a:b", "a]b", "a[b", "[1.2.3.4]", "IPv6", "\"\"", "\"a\".\"b\"", "\xd0\xb6", "\"\xd0\xb6:\"", "abcdefghijklmnopqrstuvwxyzabcdefghijklmnopqrstuvwxyzabcdefghijkl" };
        static const char *const DP[36] = { "[1.2.3.4]", "[255.255.255.255]", "[192.0.2.1]", "[0.0.0.0]", "[1.2.3.256]", "[1.2.3]", "[IPv6:::1]", "[IPv6:1:2:3:4:5:6:7:8]", "[IPv6:1::8]", "[IPv6:::]",
            "[IPv6:1:2:3:4:5:6:1.2.3.4]", "[IPv6:::1.2.3.4]", "[::1]", "[1:2:3:4:5:6:7:8]", "[IPv6:1:2:3:4:5:6:7]", "[IPv6:1.2.3.4]", "[IPv4:1.2.3.4]", "[ipv6:::1]", "[1.2.3.4", "1.2.3.4]", "[]", "[1.2.3.4]x",
            "1.2.3.4", "ok.com", "a.test", "example.com", "a.b.museum", "a", "a.", "a..b", "-a.com", "xn--p1ai.xn--p1ai", "\xd0\xbf.\xd1\x80\xd1\x84", "a.zz", "[IPv6:1:2:3:4:5:6:7:8]:25", "a_b.com" };
        for (int d = 0; d < 36; d++) c_emit_str(emit, arg, "%s@%s", LP[shard], DP[d]);
    } break;
    case CP_MAXLIT: {
        static const char *const LIT[6] = { "IPv6:ffff:ffff:ffff:ffff:ffff:ffff:255.255.255.255", "ffff:ffff:ffff:ffff:ffff:ffff:ffff:ffff", "255.255.255.255",
            "IPv6:ffff:ffff:ffff::ffff:255.255.255.255", "IPv6:ffff:ffff:ffff:ffff:ffff:ffff:ffff:ffff", "IPv6:1111:2222:3333:4444:5555:6666:123.123.123.123" };
        static const char *const JUNK[] = { "", ".1", ".evil.example.com", ":1", "x", " ", "0", "1", ":", "::", ".", "%eth0", "/64", "]", "[", ".255", ":ffff", "\x01", "\xd0\xb6" };
        const char *lit = LIT[shard];
        for (unsigned j = 0; j < sizeof JUNK / sizeof JUNK[0]; j++) { c_emit_str(emit, arg, "x@[%s%s]", lit, JUNK[j]); c_emit_str(emit, arg, "x@[%s]%s", lit, JUNK[j]); c_emit_str(emit, arg, "x@[%s%s", lit, JUNK[j]); }
        for (int n = 1; n <= 24; n++) for (const char *f = "a1.:"; *f; f++) { char junk[32]; memset(junk, *f, (size_t)n); junk[n] = 0; c_emit_str(emit, arg, "x@[%s%s]", lit, junk); }
        /* every proper prefix of the literal */
        for (size_t cut = 1; cut < strlen(lit); cut++) { char pre[96]; memcpy(pre, lit, cut); pre[cut] = 0; c_emit_str(emit, arg, "x@[%s]", pre); }
    } break;
    }
}
#endif
