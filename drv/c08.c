/* c08.c - C08: allow_tld / tld_check policy, enumerated completely.
 *   all 2^11 masks (bits 0..10) x 4 modes x tld_check {on,off} x
 *     (a) real addresses: one per class the shipped data can produce (taken from punycode.csv by the harness),
 *         reserved names, unlisted TLD, single label, IPv4/IPv6 literals, syntactically invalid addresses
 *     (b) a caller-installed callback (ascii_cb / utf8_cb are public fields) returning every class 1..9,
 *         0, and every negative code -1..-35: reaches the 'test' and 'retired' arms the table cannot
 *   plus eav_init defaults read back field by field.
 */
#include "corpus.h"
#include "../ref/ref_local.h"
#include "../ref/ref_domain.h"
#include <eav.h>
#include <eav/auto_tld.h>

static int C_REAL, C_CB, C_ACCEPT, C_REJECT;
static const char *MN[4] = { "822", "5321", "5322", "6531" };
static const EAV_RFC RFC[4] = { EAV_RFC_822, EAV_RFC_5321, EAV_RFC_5322, EAV_RFC_6531 };

static int bit_of(int cls) { return 1 << (cls + 1); }       /* documented: EAV_TLD_x = 1 << (TLD_TYPE_x + 1) */
static int code_of(int cls) { return EEAV_TLD_NOT_ASSIGNED + cls - TLD_TYPE_NOT_ASSIGNED; }

typedef struct { char addr[128]; int cls; /* >0 class, 0 literal/accepted-without-class, <0 error code */ int only6531; /* the spelling is non-ASCII: ASCII modes are not judged here */ } real_t;
static real_t REAL[64]; static int NREAL;

static void add_real(const char *a, int cls) { snprintf(REAL[NREAL].addr, sizeof REAL[0].addr, "%s", a); REAL[NREAL].cls = cls; REAL[NREAL].only6531 = 0; NREAL++; }
static void add_real6531(const char *a, int cls) { add_real(a, cls); REAL[NREAL - 1].only6531 = 1; }

/* callback injection */
static int CB_RC;
static eav_result_t *cb(const char *e, size_t l, bool t) {
    (void)e; (void)l; (void)t;
    eav_result_t *r = calloc(1, sizeof *r);
    r->rc = CB_RC; r->is_domain = CB_RC >= 0;
    return r;
}

static void check_one(const char *sub, int mask, int m, int tld, const char *addr, int cls, int via_cb) {
    eav_t e; memset(&e, 0xA5, sizeof e);
    eav_init(&e);
    e.rfc = RFC[m]; e.tld_check = tld; e.allow_tld = mask;
    if (eav_setup(&e) != 0) { mc_violation(sub, "setup-failed", "", "", addr, strlen(addr), "eav_setup failed"); return; }
    if (via_cb) { e.ascii_cb = cb; e.utf8_cb = cb; CB_RC = cls; }
    char cfg[96]; snprintf(cfg, sizeof cfg, "mask=%d mode=%s tld=%d cls=%d cb=%d", mask, MN[m], tld, cls, via_cb);
    mc_current(sub, cfg, addr, strlen(addr));
    int ret = eav_is_email(&e, addr, strlen(addr)), err = e.errcode;
    MC_ADD(C_EVAL, 1); MC_ADD(via_cb ? C_CB : C_REAL, 1);
    int want_ret, want_err;
    if (!tld && !via_cb) {
        /* TLD checking off: neither TLD nor FQDN-ness nor the mask matters; syntactically valid => accepted */
        want_ret = (cls >= 0 || cls == -EEAV_TLD_INVALID || cls == -EEAV_DOMAIN_NOT_FQDN) ? 1 : 0;
        want_err = want_ret ? EEAV_NO_ERROR : -cls;
    } else if (cls > 0) { want_ret = (mask & bit_of(cls)) ? 1 : 0; want_err = want_ret ? EEAV_NO_ERROR : code_of(cls); }
    else if (cls == 0) { want_ret = 1; want_err = EEAV_NO_ERROR; }
    else { want_ret = 0; want_err = -cls; }
    MC_ADD(want_ret ? C_ACCEPT : C_REJECT, 1);
    /* mode 6531: a malformed host name may be reported by the IDN library instead (property C10/C12) */
    int idn_alt = (m == 3 && !via_cb && cls <= -EEAV_DOMAIN_LABEL_TOO_LONG && cls >= -EEAV_DOMAIN_NUMERIC && err == EEAV_IDN_ERROR);
    if (ret != want_ret || (err != want_err && !idn_alt)) {
        char w[96];
        if (cls > 0) snprintf(w, sizeof w, "%s:class-%s:%s", via_cb ? "cb" : "real", rt_name[cls], ret != want_ret ? "wrong-decision" : "wrong-errcode");
        else snprintf(w, sizeof w, "%s:result-%d:%s", via_cb ? "cb" : "real", cls, ret != want_ret ? "wrong-decision" : "wrong-errcode");
        mc_violation(sub, w, "", cfg, addr, strlen(addr), "mask 0x%03x mode %s tld_check %d: returned %d errcode %d, expected %d errcode %d", mask, MN[m], tld, ret, err, want_ret, want_err);
    }
    if (ret == 1 && err != EEAV_NO_ERROR) mc_violation(sub, "accepted-with-error-code", "", cfg, addr, strlen(addr), "returned 1 with errcode %d", err);
    const char *msg = eav_errstr(&e);
    if (!ret && (!msg || !msg[0]) && !(via_cb && cls == -EEAV_IDN_ERROR)) mc_violation(sub, "rejected-without-message", "", cfg, addr, strlen(addr), "eav_errstr empty after a rejection (errcode %d)", err);
    eav_free(&e);
}

static void mask_shard(long mask, void *arg) {
    (void)arg;
    for (int m = 0; m < 4; m++) for (int tld = 0; tld < 2; tld++) {
        for (int i = 0; i < NREAL; i++) { if (REAL[i].only6531 && m != 3) continue; check_one("real", (int)mask, m, tld, REAL[i].addr, REAL[i].cls, 0); }
        if (!tld) continue;
        for (int cls = 1; cls <= 9; cls++) check_one("callback", (int)mask, m, tld, "injected@callback.example", cls, 1);
        check_one("callback", (int)mask, m, tld, "injected@callback.example", 0, 1);
        for (int neg = 1; neg < EEAV_MAX; neg++) { if (neg == EEAV_IDN_ERROR) continue; check_one("callback", (int)mask, m, tld, "injected@callback.example", -neg, 1); }
    }
}

/* ---------- the policy can only veto: corpora of (mostly invalid) addresses under the extreme and single-bit masks ----------
 * For every address of the local-part / e-mail / domain / literal / lpxdom corpora, every mode:
 *   (1) tld_check off: return value and errcode are the same under mask 0, mask 0x7ff, the default mask and each single-bit mask
 *   (2) tld_check on:  an address accepted under some mask is accepted with tld_check off (the policy filters valid addresses, it never
 *                      rescues one a validator refused)
 *   (3) the reference models say REJECT (local part or ASCII domain part / literal): refused under every mask, tld_check on and off */
#define NPM 14
static int PMASK[NPM]; static eav_t POBJ[4][2][NPM]; static int C_VETO, CURPH8;
static void veto_objects(void) {
    eav_t d; memset(&d, 0, sizeof d); eav_init(&d);
    PMASK[0] = 0; PMASK[1] = 0x7ff; PMASK[2] = d.allow_tld; for (int b = 0; b < 11; b++) PMASK[3 + b] = 1 << b;
    for (int m = 0; m < 4; m++) for (int t = 0; t < 2; t++) for (int k = 0; k < NPM; k++) {
        eav_t *e = &POBJ[m][t][k]; memset(e, 0, sizeof *e); eav_init(e); e->rfc = RFC[m]; e->tld_check = t; e->allow_tld = PMASK[k];
        if (eav_setup(e) != 0) { fprintf(stderr, "setup failed\n"); exit(2); }
    }
}
static void veto_sink(const unsigned char *s, size_t n, void *arg) {
    (void)arg; if (n == 0 || n > 3000) return;
    for (size_t i = 0; i < n; i++) if (!s[i]) return;
    char buf[3072]; memcpy(buf, s, n); buf[n] = 0;
    long at = -1; for (long i = (long)n - 1; i >= 0; i--) if (s[i] == '@') { at = i; break; }
    for (int m = 0; m < 4; m++) {
        int refrej = 0;
        if (at <= 0 || (size_t)at == n - 1 || at > 64) refrej = 1;
        else {
            if (ref_local(s, (size_t)at, m, 0) == R_REJ) refrej = 1;
            const unsigned char *D = s + at + 1; size_t dn = n - (size_t)at - 1; int fam;
            if ((D[0] == '[' || m != 3) && ref_domainpart(D, dn, 0, &fam) == R_REJ) refrej = 1;
        }
        char cfg[64]; snprintf(cfg, sizeof cfg, "veto=1 mode=%s", MN[m]);
        mc_current(corpus_name(CURPH8), cfg, s, n);
        int ret[2][NPM], err[2][NPM], any_on = 0;
        for (int t = 0; t < 2; t++) for (int k = 0; k < NPM; k++) { ret[t][k] = eav_is_email(&POBJ[m][t][k], buf, n); err[t][k] = POBJ[m][t][k].errcode; if (t && ret[t][k]) any_on = 1; }
        MC_ADD(C_EVAL, 2 * NPM); MC_ADD(C_VETO, 1);
        for (int k = 1; k < NPM; k++) if (ret[0][k] != ret[0][0] || err[0][k] != err[0][0]) {
            mc_violation(corpus_name(CURPH8), "veto:mask-matters-with-tld_check-off", "", cfg, s, n, "tld_check off: mask 0 gives ret=%d errcode=%d, mask 0x%03x gives ret=%d errcode=%d", ret[0][0], err[0][0], PMASK[k], ret[0][k], err[0][k]); break; }
        if (any_on && !ret[0][0])
            mc_violation(corpus_name(CURPH8), "veto:accepted-with-policy-refused-without", "", cfg, s, n, "accepted under some mask with tld_check on, but refused (errcode %d) with tld_check off", err[0][0]);
        /* (4) both halves valid by the reference and an ASCII host name: with tld_check on the decision under every mask is "bit of the class
         *     the shipped data gives this name" (reserved names first, then the table row of the last label), tld_check off accepts */
        if (!refrej && at > 0 && m != 3 && s[at + 1] != '[' && ref_local(s, (size_t)at, m, 0) == R_ACC) {
            const char *D = (const char *)s + at + 1; size_t dn = n - (size_t)at - 1; int fam;
            if (ref_domainpart((const unsigned char *)D, dn, 0, &fam) == R_ACC && D[dn - 1] != '.') {
                int cls; if (ref_special(D, dn)) cls = TLD_TYPE_SPECIAL; else { size_t i = dn; while (i > 0 && D[i - 1] != '.') i--; cls = i == 0 ? 0 : rt_lookup(&RT_PUNY, D + i, dn - i); }
                for (int k = 0; k < NPM; k++) { int want = cls > 0 && (PMASK[k] & bit_of(cls));
                    if (ret[1][k] != want) { char w[96]; snprintf(w, sizeof w, "veto:class-%d:decision-under-mask-differs", cls);
                        mc_violation(corpus_name(CURPH8), w, "", cfg, s, n, "class by the shipped data %d, mask 0x%03x: returned %d (errcode %d), expected %d", cls, PMASK[k], ret[1][k], err[1][k], want); break; } }
                if (!ret[0][0]) mc_violation(corpus_name(CURPH8), "veto:valid-address-refused-with-tld_check-off", "", cfg, s, n, "both halves valid, tld_check off: refused with errcode %d", err[0][0]);
            }
        }
        if (refrej) for (int t = 0; t < 2; t++) for (int k = 0; k < NPM; k++) if (ret[t][k]) {
            mc_violation(corpus_name(CURPH8), "veto:reference-rejects-but-accepted-under-some-mask", "", cfg, s, n, "the reference models refuse this address; tld_check=%d mask 0x%03x: accepted", t, PMASK[k]); t = 2; break; }
    }
}
static void veto_shard(long shard, void *arg) { (void)arg; corpus_run(CURPH8, shard, veto_sink, NULL); }

static int do_replay(void) {
    mc_replay_t r; if (mc_load_replay(mc_replay, &r)) return 2;
    mc_replay_hit = 0;
    if (mc_cfg_int(r.cfg, "veto", 0)) { veto_objects(); for (int i = 0; i < CP_N; i++) if (!strcmp(r.sub, corpus_name(i))) CURPH8 = i; veto_sink(r.in, (size_t)r.len, NULL);
        printf("replay %s: %s\n", mc_replay, mc_replay_hit ? "VIOLATION reproduced" : "no violation"); return mc_replay_hit ? 1 : 0; }
    char a[256]; memcpy(a, r.in, (size_t)r.len); a[r.len] = 0;
    long mode = mc_cfg_int(r.cfg, "mode", 6531); int m = mode == 822 ? 0 : mode == 5321 ? 1 : mode == 5322 ? 2 : 3;
    check_one(r.sub, (int)mc_cfg_int(r.cfg, "mask", 0), m, (int)mc_cfg_int(r.cfg, "tld", 1), a, (int)mc_cfg_int(r.cfg, "cls", 0), (int)mc_cfg_int(r.cfg, "cb", 0));
    printf("replay %s: %s\n", mc_replay, mc_replay_hit ? "VIOLATION reproduced" : "no violation");
    return mc_replay_hit ? 1 : 0;
}

int main(int argc, char **argv) {
    mc_init(argc, argv, "C08");
    C_REAL = mc_counter("real_address_cases"); C_CB = mc_counter("callback_cases"); C_ACCEPT = mc_counter("expected_accept"); C_REJECT = mc_counter("expected_reject"); C_VETO = mc_counter("veto_address_mode_cases");
    if (rt_load()) return 2;
    /* one real address per class present in the CSV (first row of each class), found by the harness */
    int seen[16] = {0}; int classes_in_table = 0;
    for (int i = 0; i < RT_PUNY.n; i++) {
        int c = RT_PUNY.row[i].cls;
        if (c > 0 && c < 16 && seen[c] < 2) { char a[128]; snprintf(a, sizeof a, "user@host%d.%s", seen[c], RT_PUNY.row[i].domain); add_real(a, c); if (!seen[c]) classes_in_table++; seen[c]++; }
    }
    add_real("user@example.com", TLD_TYPE_SPECIAL); add_real("user@sub.localhost", TLD_TYPE_SPECIAL); add_real("user@test", TLD_TYPE_SPECIAL);
    /* the same classes spelled the way IDNA maps them (ideographic / fullwidth full stop, fullwidth letters, upper case): mode 6531 only */
    add_real6531("user@mail.example\xe3\x80\x82" "com", TLD_TYPE_SPECIAL); add_real6531("user@sub\xef\xbc\x8e" "localhost", TLD_TYPE_SPECIAL);
    add_real6531("user@\xef\xbd\x94\xef\xbd\x85\xef\xbd\x93\xef\xbd\x94", TLD_TYPE_SPECIAL); add_real6531("user@a.\xef\xbd\x8f\xef\xbd\x8e\xef\xbd\x89\xef\xbd\x8f\xef\xbd\x8e", TLD_TYPE_SPECIAL);
    add_real6531("user@\xd0\xbf\xd0\xbe\xd1\x87\xd1\x82\xd0\xb0.\xd1\x80\xd1\x84", TLD_TYPE_COUNTRY_CODE); add_real6531("user@\xd0\xbf\xd0\xbe\xd1\x87\xd1\x82\xd0\xb0\xe3\x80\x82\xd0\xa0\xd0\xa4", TLD_TYPE_COUNTRY_CODE);
    add_real("user@Host.EXAMPLE.Org", TLD_TYPE_SPECIAL);
    add_real("user@host.zzzzq", -EEAV_TLD_INVALID);
    /* labels that merely begin or end with a reserved name are ordinary unlisted labels / single labels */
    add_real("user@mail.invalidxx", -EEAV_TLD_INVALID); add_real("user@mail.testly", -EEAV_TLD_INVALID); add_real("user@mail.onionaa", -EEAV_TLD_INVALID); add_real("user@mail.xxexample", -EEAV_TLD_INVALID);
    add_real("user@invalidly", -EEAV_DOMAIN_NOT_FQDN); add_real("user@localhostal", -EEAV_DOMAIN_NOT_FQDN); add_real("user@mail.localhost1a", -EEAV_TLD_INVALID); add_real("user@example.comx", -EEAV_TLD_INVALID); add_real("user@singlelabel", -EEAV_DOMAIN_NOT_FQDN);
    add_real("user@[192.0.2.1]", 0); add_real("user@[IPv6:2001:db8::1]", 0);
    add_real("user@-bad.com", -EEAV_DOMAIN_MISPLACED_HYPHEN); add_real("us er@ok.com", -EEAV_LPART_SPECIAL); add_real("user@", -EEAV_DOMAIN_EMPTY); add_real("", -EEAV_EMAIL_EMPTY);
    if (mc_replay) return do_replay();
    /* eav_init defaults */
    {
        eav_t e; memset(&e, 0x5A, sizeof e); eav_init(&e);
        int want = EAV_TLD_COUNTRY_CODE | EAV_TLD_GENERIC | EAV_TLD_GENERIC_RESTRICTED | EAV_TLD_INFRASTRUCTURE | EAV_TLD_SPONSORED | EAV_TLD_SPECIAL;
        if (e.rfc != EAV_RFC_6531) mc_violation("noreplay-defaults", "default-mode", "", "", "", 0, "eav_init selects rfc %d", e.rfc);
        if (e.tld_check != true) mc_violation("noreplay-defaults", "default-tld_check", "", "", "", 0, "eav_init leaves tld_check %d", e.tld_check);
        if (e.allow_tld != want) mc_violation("noreplay-defaults", "default-mask", "", "", "", 0, "eav_init mask 0x%x, documented 0x%x", e.allow_tld, want);
        if (e.allow_tld & (EAV_TLD_NOT_ASSIGNED | EAV_TLD_TEST | EAV_TLD_RETIRED)) mc_violation("noreplay-defaults", "default-mask-allows-excluded-class", "", "", "", 0, "mask 0x%x", e.allow_tld);
        for (int c = 1; c <= 9; c++) if (bit_of(c) != (c == 1 ? EAV_TLD_NOT_ASSIGNED : c == 2 ? EAV_TLD_COUNTRY_CODE : c == 3 ? EAV_TLD_GENERIC : c == 4 ? EAV_TLD_GENERIC_RESTRICTED :
            c == 5 ? EAV_TLD_INFRASTRUCTURE : c == 6 ? EAV_TLD_SPONSORED : c == 7 ? EAV_TLD_TEST : c == 8 ? EAV_TLD_SPECIAL : EAV_TLD_RETIRED))
            mc_violation("noreplay-defaults", "bit-numbering", "", "", "", 0, "class %d", c);
    }
    mc_extra_add("\"classes_present_in_table\":%d,\"real_addresses\":%d", classes_in_table, NREAL);
    mc_parallel("all 2^11 masks x 4 modes x tld on/off x (real addresses + injected classes/codes)", 2048, mask_shard, NULL);
    { static const int PH[] = { CP_LPXDOM, CP_DEPTH, CP_EMBED, CP_SHORTLAB, CP_TLD, CP_LOCAL, CP_EMAIL, CP_DOMAIN, CP_LITERAL, CP_MAXLIT, CP_LABELLEN };
      CORPUS_DEEP = mc_thorough; if (corpus_load()) return 2; veto_objects();
      for (unsigned i = 0; i < sizeof PH / sizeof PH[0]; i++) { CURPH8 = PH[i]; char nm[96]; snprintf(nm, sizeof nm, "veto: 14 masks x tld on/off x 4 modes over %.40s", corpus_name(CURPH8)); mc_parallel(nm, corpus_shards(CURPH8), veto_shard, NULL); } }
    mc_sh->ctr[C_NONTRIV] = mc_sh->ctr[C_REAL] + mc_sh->ctr[C_CB] + mc_sh->ctr[C_VETO];     /* (mask, mode, tld, case) tuples: distinct by construction */
    return mc_finish();
}
