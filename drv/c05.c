/* c05.c - C05: address literals.  E-INPUT exploration against ref_literal()/ref_domainpart().
 *  raw   all token strings after "x@" (brackets included in the alphabet)
 *  in    all token strings as bracket content x@[...]
 *  v4    structured dotted quads (every octet value 0..300 in every position, 17^4 spellings, 3/5 octets, stray dots)
 *  v6    structured IPv6 shapes (groups before/after "::", widths 0..5, v4 tails, tags, stray colons)
 *  byte  every byte before '[', after '[', before ']', after ']'; every 1-2 token string after ']'
 * Every case goes through is_{822,5321,5322,6531}_email with tld_check off and on, and the bracket
 * content through the public part validators on a stand-alone NUL-terminated copy.
 */
#include "corpus.h"
#include "../ref/ref_domain.h"
#include <eav.h>

static int C_RAW, C_IN, C_V4, C_V6, C_BYTE, C_ACC, C_REJ, C_ANY, C_IMPLACC, C_PART;

typedef eav_result_t *(*email_fn)(const char *, size_t, bool);
#ifdef HAVE_IDNKIT
/* the idnkit build's is_6531_email takes a resolver context: mode 6531 goes through a long-lived eav_t there (the record is copied out) */
static eav_t OBJ6531[2]; static int obj6531_ready;
static eav_result_t *via_object_6531(const char *e, size_t l, bool t) {
    if (!obj6531_ready) { for (int k = 0; k < 2; k++) { memset(&OBJ6531[k], 0, sizeof OBJ6531[k]); eav_init(&OBJ6531[k]); OBJ6531[k].rfc = EAV_RFC_6531; OBJ6531[k].tld_check = k; OBJ6531[k].allow_tld = 0x7fe; if (eav_setup(&OBJ6531[k])) exit(2); } obj6531_ready = 1; }
    eav_is_email(&OBJ6531[t ? 1 : 0], e, l);
    eav_result_t *r = calloc(1, sizeof *r); eav_result_t *s = OBJ6531[t ? 1 : 0].result;
    if (s) { r->rc = s->rc; r->is_ipv4 = s->is_ipv4; r->is_ipv6 = s->is_ipv6; r->is_domain = s->is_domain; r->idn_rc = s->idn_rc; } else r->rc = -EEAV_EMAIL_EMPTY;
    return r;
}
static email_fn EMAIL[4] = { is_822_email, is_5321_email, is_5322_email, via_object_6531 };
#else
static email_fn EMAIL[4] = { is_822_email, is_5321_email, is_5322_email, is_6531_email };
#endif
static const char *MN[4] = { "822", "5321", "5322", "6531" };
static const char *FAM[] = { "none", "host", "ipv4", "ipv6" };

/* classification of an accepted-but-invalid literal: what is wrong with it */
static const char *why_acc(const unsigned char *d, size_t n) {
    static char w[72];
    if (n >= 1 && d[0] == '[') {
        const unsigned char *rb = memchr(d, ']', n);
        if (!rb) return "accepts:no-closing-bracket";
        if ((size_t)(rb - d) + 1 != n) { const unsigned char *last = d + n - 1; while (last > d && *last != ']') last--; if ((size_t)(last - d) + 1 != n) return "accepts:bytes-after-bracket"; return "accepts:bracket-inside"; }
        const unsigned char *c = d + 1; size_t cn = n - 2; int st;
        const unsigned char *col = memchr(c, ':', cn);
        if (!col) return "accepts:bad-ipv4";
        if (ref_ipv6(c, cn, &st)) return "accepts:?";
        /* some tag? */
        size_t tl = (size_t)(col - c);
        if (tl > 0 && !(tl == 4 && strncasecmp((const char *)c, "IPv6", 4) == 0)) {
            int hex = tl <= 4; for (size_t i = 0; i < tl; i++) if (!rd_ishex(c[i])) hex = 0;
            if (!hex) return "accepts:foreign-tag";
            if (ref_ipv6(col + 1, cn - tl - 1, &st) || 1) { snprintf(w, sizeof w, "accepts:bad-ipv6(untagged-or-hex-tag)"); return w; }
        }
        return "accepts:bad-ipv6";
    }
    return "accepts:not-a-literal";
}

static void check_dpart(const char *sub, const unsigned char *d, size_t n) {
    if (n + 4 > MC_CASEMAX) return;
    char buf[MC_CASEMAX + 8];
    mc_current(sub, "", d, n);
    int fam;
    int exp = ref_domainpart(d, n, 0, &fam);
    int bracket = (n > 0 && d[0] == '[');
    int hasat = 0; for (size_t i = 0; i < n; i++) if (d[i] == '@') hasat = 1;
    if (hasat || n == 0) return;
    MC_ADD(exp == R_ACC ? C_ACC : exp == R_REJ ? C_REJ : C_ANY, 1);
    /* the local part must not matter to the literal's verdict, family or flags: besides "x", two quoted local parts (valid in every mode)
     * that contain what the literal parser looks for - a colon, a dot between digits, brackets, an '@' */
    static const char *const LPS[3] = { "x", "\"a:b\"", "\"1.2]@[:\"" };
    for (int lpi = 0; lpi < (bracket ? 3 : 1); lpi++) {
    size_t lpl = strlen(LPS[lpi]); if (n + lpl + 2 > sizeof buf) break;
    memcpy(buf, LPS[lpi], lpl); buf[lpl] = '@'; memcpy(buf + lpl + 1, d, n); buf[lpl + 1 + n] = 0;
    for (int m = 0; m < 4; m++) {
        if (m == 3 && !bracket) continue;     /* host names in mode 6531: C04/C10 */
        for (int tld = 0; tld < 2; tld++) {
            if (tld && !bracket) continue;    /* policy on host names: C07/C08 */
            eav_result_t *r = EMAIL[m](buf, n + lpl + 1, tld);
            MC_ADD(C_EVAL, 1);
            int acc = (r->rc == 0);
            if (acc) MC_ADD(C_IMPLACC, 1);
            char cfg[48]; snprintf(cfg, sizeof cfg, "mode=%s tld=%d lp=%d", MN[m], tld, lpi);
            if (exp != R_ANY && acc != (exp == R_ACC)) {
                char w[96]; snprintf(w, sizeof w, "%s", exp == R_ACC ? "rejects-valid-literal" : why_acc(d, n));
                mc_violation(sub, w, "", cfg, d, n, "is_%s_email(%s@D,tld=%d): reference %s, library rc=%d", MN[m], LPS[lpi], tld, exp == R_ACC ? "ACCEPT" : "REJECT", r->rc);
            }
            int nf = r->is_ipv4 + r->is_ipv6 + r->is_domain;
            if (nf > 1) mc_violation(sub, "more-than-one-flag", "", cfg, d, n, "flags v4=%d v6=%d dom=%d", r->is_ipv4, r->is_ipv6, r->is_domain);
            if (acc && exp != R_REJ) {
                int got = r->is_ipv4 ? RF_V4 : r->is_ipv6 ? RF_V6 : r->is_domain ? RF_HOST : RF_NONE;
                if (got != fam) {
                    char w[64]; snprintf(w, sizeof w, "family:%s-reported-as-%s", FAM[fam], FAM[got]);
                    mc_violation(sub, w, "", cfg, d, n, "accepted %s literal but result flags say %s", FAM[fam], FAM[got]);
                }
            }
            if (!acc && r->rc < 0 && bracket && nf != 0 && exp == R_REJ)
                mc_violation(sub, "flag-on-rejected-literal", "", cfg, d, n, "rejected (rc=%d) but a flag is set v4=%d v6=%d dom=%d", r->rc, r->is_ipv4, r->is_ipv6, r->is_domain);
            eav_result_free(r);
        }
    }
    }
    /* the public part validators on a stand-alone copy of the bracket content */
    if (bracket && n >= 2 && d[n - 1] == ']' && !memchr(d + 1, ']', n - 2) && !memchr(d + 1, '[', n - 2)) {
        char c[MC_CASEMAX]; size_t cn = n - 2; memcpy(c, d + 1, cn); c[cn] = 0;
        int s4, s6;
        int p4 = ref_ipv4((const unsigned char *)c, cn, &s4), p6 = ref_ipv6((const unsigned char *)c, cn, &s6);
        int r4 = is_ipv4(c, c + cn), r6 = is_ipv6(c, c + cn), ra = is_ipaddr(c, c + cn);
        MC_ADD(C_EVAL, 3); MC_ADD(C_PART, 3);
        if (r4 && !p4) mc_violation(sub, "is_ipv4:accepts-invalid", "", "ctx=is_ipv4", d, n, "is_ipv4 returned %d for an invalid dotted quad", r4);
        if (!r4 && s4) mc_violation(sub, "is_ipv4:rejects-valid", "", "ctx=is_ipv4", d, n, "is_ipv4 rejected a valid dotted quad");
        if (memchr(c, ':', cn)) {
            if (r6 && !p6) mc_violation(sub, "is_ipv6:accepts-invalid", "", "ctx=is_ipv6", d, n, "is_ipv6 returned %d for an invalid IPv6 text", r6);
            if (!r6 && s6) mc_violation(sub, "is_ipv6:rejects-valid", "", "ctx=is_ipv6", d, n, "is_ipv6 rejected a valid RFC 5321 IPv6 text");
        }
        if (ra && !(p4 || p6)) mc_violation(sub, "is_ipaddr:accepts-invalid", "", "ctx=is_ipaddr", d, n, "is_ipaddr returned %d for an invalid address", ra);
        if (!ra && (s4 || s6)) mc_violation(sub, "is_ipaddr:rejects-valid", "", "ctx=is_ipaddr", d, n, "is_ipaddr rejected a valid address");
        /* the validators are delimited by `end', not by NUL: whatever follows the end pointer (more digits, hex digits, dots,
         * colons, the closing bracket of a surrounding address) must not change any of the three decisions */
        static const char *const AFTER[] = { "]", "1", "9", "a", "F", ".1", ":1", "::", ":", ".", "1.2.3.4", "abcd:1", "g", " " };
        for (unsigned t = 0; t < sizeof AFTER / sizeof AFTER[0]; t++) {
            size_t tl = strlen(AFTER[t]); if (cn + tl + 1 > sizeof c) break;
            memcpy(c + cn, AFTER[t], tl + 1);
            int t4 = is_ipv4(c, c + cn), t6 = is_ipv6(c, c + cn), ta = is_ipaddr(c, c + cn);
            MC_ADD(C_EVAL, 3); MC_ADD(C_PART, 3);
            if (!t4 != !r4 || !t6 != !r6 || !ta != !ra) {
                char cfg[64]; snprintf(cfg, sizeof cfg, "ctx=after-end tail=%u", t);
                mc_violation(sub, !t4 != !r4 ? "is_ipv4:reads-past-end" : !t6 != !r6 ? "is_ipv6:reads-past-end" : "is_ipaddr:reads-past-end", "", cfg, d, n,
                             "bytes \"%s\" placed after the end pointer change the decision: ipv4 %d->%d ipv6 %d->%d ipaddr %d->%d", AFTER[t], r4, t4, r6, t6, ra, ta);
            }
        }
        c[cn] = 0;
    }
}

/* ---------- raw / in ---------- */
static const mc_tok_t SIGRAW[] = { MC_TOK("1"), MC_TOK("0"), MC_TOK("a"), MC_TOK("g"), MC_TOK(":"), MC_TOK("."), MC_TOK("["), MC_TOK("]"), MC_TOK("IPv6:"), MC_TOK("x") };
static const mc_tok_t SIGIN[]  = { MC_TOK("1"), MC_TOK("0"), MC_TOK("a"), MC_TOK("g"), MC_TOK(":"), MC_TOK("."), MC_TOK("IPv6:"), MC_TOK("]"), MC_TOK("[") };
static void raw_cb(const unsigned char *s, size_t n, int nt, void *a) {
    (void)nt; (void)a; check_dpart("raw", s, n); MC_ADD(C_RAW, 1);
    if (n >= 3 && s[0] == '[') MC_ADD(C_NONTRIV, 1);
}
static void in_cb(const unsigned char *s, size_t n, int nt, void *a) {
    (void)nt; (void)a; unsigned char t[128]; t[0] = '['; memcpy(t + 1, s, n); t[n + 1] = ']';
    check_dpart("in", t, n + 2); MC_ADD(C_IN, 1);
    int st; if (n >= 3 && (memchr(s, ':', n) || memchr(s, '.', n))) { (void)st; MC_ADD(C_NONTRIV, 1); }
}
static mc_enum_t ERAW, EIN;
static void raw_shard(long s, void *a) { (void)a; mc_enum_t e = ERAW; mc_enum_shard(&e, s); }
static void in_shard(long s, void *a) { (void)a; mc_enum_t e = EIN; mc_enum_shard(&e, s); }

/* ---------- structured IPv4 ---------- */
static void brkt(const char *sub, const char *content) {
    unsigned char t[256]; size_t l = strlen(content);
    t[0] = '['; memcpy(t + 1, content, l); t[l + 1] = ']';
    check_dpart(sub, t, l + 2);
}
static const char *const OCT[] = { "0", "1", "9", "10", "99", "100", "199", "200", "249", "250", "255", "256", "300", "00", "01", "001", "0001", "",
    "4294967297", "4294967296", "4294967551", "18446744073709551617", "65537", "99999999999999999999", "00000000000000000001" };
#define NOCT 25
static void v4_shard(long shard, void *arg) {
    (void)arg; char c[128];
    if (shard < NOCT) {       /* all 4-tuples with first spelling = shard */
        for (int b = 0; b < NOCT; b++) for (int cc = 0; cc < NOCT; cc++) for (int d = 0; d < NOCT; d++) {
            snprintf(c, sizeof c, "%s.%s.%s.%s", OCT[shard], OCT[b], OCT[cc], OCT[d]); brkt("v4", c); MC_ADD(C_V4, 1);
        }
        return;
    }
    /* every value 0..300 in each position; 3 and 5 octets; stray dots */
    for (int v = 0; v <= 300; v++) {
        snprintf(c, sizeof c, "%d.20.30.40", v); brkt("v4", c);
        snprintf(c, sizeof c, "10.%d.30.40", v); brkt("v4", c);
        snprintf(c, sizeof c, "10.20.%d.40", v); brkt("v4", c);
        snprintf(c, sizeof c, "10.20.30.%d", v); brkt("v4", c);
        snprintf(c, sizeof c, "10.20.%d", v); brkt("v4", c);
        snprintf(c, sizeof c, "10.20.30.40.%d", v); brkt("v4", c);
        snprintf(c, sizeof c, "%d", v); brkt("v4", c);
        snprintf(c, sizeof c, "%d.%d", v, v); brkt("v4", c);
        MC_ADD(C_V4, 8);
    }
    /* extra dots: every 4-tuple over {0, 1, 10, 255} with one or two additional dots at every position (before, between, after the octets), plain
     * and as the tail of an IPv6 literal - a zero first octet must not switch the dot rules off */
    { static const char *const OC[4] = { "0", "1", "10", "255" };
      for (int a = 0; a < 4; a++) for (int b = 0; b < 4; b++) for (int cc = 0; cc < 4; cc++) for (int d = 0; d < 4; d++) {
        const char *o[4] = { OC[a], OC[b], OC[cc], OC[d] };
        for (int p1 = 0; p1 <= 4; p1++) for (int p2 = p1; p2 <= 5; p2++) {     /* p2 == 5: only one extra dot */
            char *q = c;
            for (int i = 0; i <= 4; i++) { if (i == p1) *q++ = '.'; if (p2 < 5 && i == p2) *q++ = '.'; if (i < 4) { if (i) *q++ = '.'; q += sprintf(q, "%s", o[i]); } }
            *q = 0; brkt("v4", c);
            char c6[160]; snprintf(c6, sizeof c6, "IPv6:::%s", c); brkt("v4", c6); snprintf(c6, sizeof c6, "IPv6:1:2:3:4:5:6:%s", c); brkt("v4", c6);
            MC_ADD(C_V4, 3);
        }
      } }
    static const char *const stray[] = { ".1.2.3.4", "1.2.3.4.", "1..2.3.4", "1.2..3.4", "1.2.3..4", "1.2.3.4..", "..1.2.3.4", "1.2.3.4.5", "1.2.3", "1.2.3.", "1.2.3.4 ", " 1.2.3.4",
        "1.2.3.4a", "a1.2.3.4", "1.2.3.a", "1.2.3.-4", "1.2.3.+4", "1.2.3.4\t", "0x1.2.3.4", "1.2.3.0x4", "1,2,3,4", "255.255.255.255", "127.0.0.1", "1.2.3.256", "1.2.3.4/8" };
    for (unsigned i = 0; i < sizeof stray / sizeof stray[0]; i++) { brkt("v4", stray[i]); MC_ADD(C_V4, 1); }
}

/* ---------- structured IPv6 ---------- */
static const char *const TAGS[] = { "IPv6:", "ipv6:", "", "IPv4:", "foo:", "IPv6", ":", "IPv6::" };
static const char *const TAILS[] = { "", "1.2.3.4", "0.2.3.4", "1.2.3.256", "1.2.3", "1.2.3.4." };
/* group spellings: widths 0..5 from non-zero digits, then zero-led / all-zero / upper-case / maximal / over-wide / very long / non-hex ones */
static const char *const WIDTH[] = { "", "1", "12", "123", "1234", "12345", "0", "00", "000", "0000", "00000", "00001", "0ffff", "000001", "000000000",
    "fffff", "FFFF", "ffff", "10000", "AbCd", "0000000000000000000000000000000000000001", "g", "12g", "1g34", "-1", "+1", "0x1" };
#define NWIDTH ((int)(sizeof WIDTH / sizeof WIDTH[0]))
static void v6_build(char *out, int before, int after, int dc, int devidx, int devw, const char *tail, const char *tag, int stray) {
    char *p = out; p += sprintf(p, "%s", tag);
    if (stray == 1) *p++ = ':';
    int idx = 0;
    for (int i = 0; i < before; i++, idx++) { if (i) *p++ = ':'; p += sprintf(p, "%s", idx == devidx ? WIDTH[devw] : "ab"); }
    if (dc) { *p++ = ':'; *p++ = ':'; }
    else if (before && (after || tail[0])) *p++ = ':';
    for (int i = 0; i < after; i++, idx++) { if (i) *p++ = ':'; p += sprintf(p, "%s", idx == devidx ? WIDTH[devw] : "cd"); }
    if (tail[0]) { if (after) *p++ = ':'; p += sprintf(p, "%s", tail); }
    if (stray == 2) *p++ = ':';
    *p = 0;
}
static void v6_shard(long shard, void *arg) {
    (void)arg;
    int before = (int)(shard % 9), after = (int)(shard / 9 % 9), dc = (int)(shard / 81);
    char c[256];
    int ng = before + after;
    for (int ti = 0; ti < 6; ti++) for (int tg = 0; tg < 8; tg++) for (int stray = 0; stray < 3; stray++) {
        v6_build(c, before, after, dc, -1, 0, TAILS[ti], TAGS[tg], stray); brkt("v6", c); MC_ADD(C_V6, 1);
        for (int di = 0; di < ng; di++) for (int w = 0; w < NWIDTH; w++) {
            if (w == 2) continue;     /* width 2 is the default */
            v6_build(c, before, after, dc, di, w, TAILS[ti], TAGS[tg], stray); brkt("v6", c); MC_ADD(C_V6, 1);
        }
    }
}

/* ---------- bytes around the brackets ---------- */
static const char *const LITS[] = { "1.2.3.4", "IPv6:1:2:3:4:5:6:7:8", "IPv6:::1", "1:2:3:4:5:6:7:8", "IPv6:1::1.2.3.4" };
static void byte_shard(long shard, void *arg) {
    (void)arg; const char *lit = LITS[shard]; size_t ll = strlen(lit);
    unsigned char t[128];
    for (int b = 1; b < 256; b++) {
        size_t l;
        l = 0; t[l++] = (unsigned char)b; t[l++] = '['; memcpy(t + l, lit, ll); l += ll; t[l++] = ']'; check_dpart("byte-before[", t, l);
        l = 0; t[l++] = '['; t[l++] = (unsigned char)b; memcpy(t + l, lit, ll); l += ll; t[l++] = ']'; check_dpart("byte-after[", t, l);
        l = 0; t[l++] = '['; memcpy(t + l, lit, ll); l += ll; t[l++] = (unsigned char)b; t[l++] = ']'; check_dpart("byte-before]", t, l);
        l = 0; t[l++] = '['; memcpy(t + l, lit, ll); l += ll; t[l++] = ']'; t[l++] = (unsigned char)b; check_dpart("byte-after]", t, l);
        for (int b2 = 1; b2 < 256; b2++) { t[l] = (unsigned char)b2; check_dpart("bytes-after]", t, l + 1); }
        MC_ADD(C_BYTE, 4 + 255);
        /* every byte substituted at every position of the content */
        for (size_t p = 0; p < ll; p++) {
            l = 0; t[l++] = '['; memcpy(t + l, lit, ll); t[l + p] = (unsigned char)b; l += ll; t[l++] = ']'; check_dpart("byte-subst", t, l); MC_ADD(C_BYTE, 1);
        }
    }
    /* every 1-2 token string after ']' */
    for (unsigned i = 0; i < 10; i++) for (int j = -1; j < 10; j++) {
        size_t l = 0; t[l++] = '['; memcpy(t + l, lit, ll); l += ll; t[l++] = ']';
        memcpy(t + l, SIGRAW[i].b, (size_t)SIGRAW[i].n); l += (size_t)SIGRAW[i].n;
        if (j >= 0) { memcpy(t + l, SIGRAW[j].b, (size_t)SIGRAW[j].n); l += (size_t)SIGRAW[j].n; }
        check_dpart("tokens-after]", t, l); MC_ADD(C_BYTE, 1);
    }
}

static void l5_emit(const unsigned char *s, size_t n, void *arg) { (void)arg; if (n > 2 && s[0] == 'x' && s[1] == '@') { check_dpart("maxlit", s + 2, n - 2); MC_ADD(C_BYTE, 1); } }
static void l5_shard(long shard, void *arg) { (void)arg; corpus_run(CP_MAXLIT, shard, l5_emit, NULL); }

static int do_replay(void) {
    mc_replay_t r; if (mc_load_replay(mc_replay, &r)) return 2;
    mc_replay_hit = 0;
    check_dpart(r.sub, r.in, (size_t)r.len);
    printf("replay %s: %s\n", mc_replay, mc_replay_hit ? "VIOLATION reproduced" : "no violation");
    return mc_replay_hit ? 1 : 0;
}

int main(int argc, char **argv) {
    mc_init(argc, argv, "C05");
    C_RAW = mc_counter("raw_strings"); C_IN = mc_counter("bracket_content_strings"); C_V4 = mc_counter("structured_ipv4");
    C_V6 = mc_counter("structured_ipv6"); C_BYTE = mc_counter("byte_position_cases"); C_PART = mc_counter("part_validator_calls");
    C_ACC = mc_counter("ref_accept"); C_REJ = mc_counter("ref_reject"); C_ANY = mc_counter("ref_any"); C_IMPLACC = mc_counter("impl_accept");
    if (mc_replay) return do_replay();
    mc_parallel("v4: 18^4 octet spellings, every value 0..300 in every position, 3/5 octets, stray dots", NOCT + 1, v4_shard, NULL);
    mc_parallel("v6: groups before/after '::' 0..8, 27 group spellings (widths 0..5, zero-led, over-wide, non-hex) at every index, 6 tails, 8 tags, stray colons", 9 * 9 * 2, v6_shard, NULL);
    mc_parallel("byte: every byte before/after each bracket, at every content position; 1-2 tokens after ']'", 5, byte_shard, NULL);
    mc_parallel("maxlit: maximal-length valid literals + junk inside / after the brackets, every proper prefix", corpus_shards(CP_MAXLIT), l5_shard, NULL);
    for (int i = 1; i < argc; i++) if (!strcmp(argv[i], "--structured-only")) return mc_finish();    /* the steps on the other back ends */
    int nraw = mc_thorough ? 8 : 6, nin = mc_thorough ? 9 : 7;
    memset(&ERAW, 0, sizeof ERAW); ERAW.A = SIGRAW; ERAW.nA = 10; ERAW.N = nraw; ERAW.k = 3; ERAW.fn = raw_cb;
    memset(&EIN, 0, sizeof EIN); EIN.A = SIGIN; EIN.nA = 9; EIN.N = nin; EIN.k = 3; EIN.fn = in_cb;
    char nm[96];
    snprintf(nm, sizeof nm, "raw: all strings of <= %d tokens over {1,0,a,g,:,.,[,],IPv6:,x} after x@", nraw);
    mc_parallel(nm, mc_enum_shards(&ERAW), raw_shard, NULL);
    snprintf(nm, sizeof nm, "in: all strings of <= %d tokens over {1,0,a,g,:,.,IPv6:,],[} as bracket content", nin);
    mc_parallel(nm, mc_enum_shards(&EIN), in_shard, NULL);
    return mc_finish();
}
