/* local.c - C02 (ASCII local parts; default) and C03 (-DC03: RFC 6531 local parts)
 *
 * E-INPUT product exploration of the real scanners against the reference DFAs
 * of ref/ref_local.h:
 *   L1  all strings over a class alphabet up to N tokens
 *   L2  every reference state x every byte 0x01..0xFF x every continuation of
 *       <= k tokens (+ every byte pair with <= 1 token), W-method binding
 *   L3  long inputs with <= 2 deviations
 *   U*  (C03) UTF-8 strictness sweeps: all 1-,2-,3-byte sequences, structured
 *       4-byte cover (thorough: all 4-byte sequences), in five contexts
 */
#include "../mc/mc.h"
#include "../ref/ref_local.h"
#include "../ref/dfa.h"
#include <eav.h>

#ifndef REF_OPTS
#define REF_OPTS 0
#endif

#ifdef C03
static const int MODES[] = { RM_6531 };
#define PROP "C03"
#else
static const int MODES[] = { RM_822, RM_5321, RM_5322 };
#define PROP "C02"
#endif
#define NMODES ((int)(sizeof MODES / sizeof MODES[0]))

static const char *mode_name(int m) { static const char *n[] = { "822", "5321", "5322", "6531" }; return n[m]; }
static int mode_of_name(long v) { return v == 822 ? RM_822 : v == 5321 ? RM_5321 : v == 5322 ? RM_5322 : RM_6531; }

typedef int (*local_fn)(const char *, const char *);
static local_fn LOCAL[4] = { is_822_local, is_5321_local, is_5322_local, is_6531_local };
static eav_t EAV[4], EAVALL[4];   /* EAVALL: policy on, every TLD class allowed */

static int C_L1, C_L2, C_L2P, C_L3, C_U, C_ACC, C_REJ, C_ANY, C_IMPLACC;
static int g_tails = 1;

static void setup_objects(void) {
    static const EAV_RFC rfc[4] = { EAV_RFC_822, EAV_RFC_5321, EAV_RFC_5322, EAV_RFC_6531 };
    for (int m = 0; m < 4; m++) {
        memset(&EAV[m], 0, sizeof EAV[m]);
        eav_init(&EAV[m]);
        EAV[m].rfc = rfc[m];
        EAV[m].tld_check = false;
        if (eav_setup(&EAV[m]) != 0) { fprintf(stderr, "eav_setup failed\n"); exit(2); }
        memset(&EAVALL[m], 0, sizeof EAVALL[m]);
        eav_init(&EAVALL[m]);
        EAVALL[m].rfc = rfc[m];
        EAVALL[m].tld_check = true;
        EAVALL[m].allow_tld = 0x7fe;          /* EAV_TLD_INVALID .. EAV_TLD_RETIRED */
        if (eav_setup(&EAVALL[m]) != 0) { fprintf(stderr, "eav_setup failed\n"); exit(2); }
    }
}

static const char *byte_class(int b) {
    if (b >= 0x80) return "hi";
    switch (b) { case '.': return "dot"; case '"': return "dquote"; case '\\': return "backslash";
                 case ' ': return "SP"; case '\t': return "HT"; case '\r': return "CR"; case '\n': return "LF"; case 0x7f: return "DEL"; }
    if (b < 0x20) return "ctl";
    if (ref_is_special(b)) return "special";
    return "atext";
}
/* root-cause class of a disagreement: where the (strict) reference dies / what the library said */
static const char *why_of(int mode, const unsigned char *s, size_t n, int exp, int rc, const char *ctx) {
    static char w[72];
    if (exp == R_ACC) { snprintf(w, sizeof w, "%s:%s:rejects-valid:rc=%d", mode_name(mode), ctx, rc); return w; }
    int st = G_START;
    for (size_t i = 0; i < n; i++) {
        int nx = ref_step(st, s[i], mode, REF_OPTS, 1);
        if (nx == REF_DEAD) {
            int u = (st >> 8) & 0xf;
            snprintf(w, sizeof w, "%s:%s:accepts:%s%s+%s", mode_name(mode), ctx, ref_gname[st & 0xff], u ? "(mid-utf8)" : "", byte_class(s[i]));
            return w;
        }
        st = nx;
    }
    snprintf(w, sizeof w, "%s:%s:accepts:ends-in-%s%s", mode_name(mode), ctx, ref_gname[st & 0xff], ((st >> 8) & 0xf) ? "(mid-utf8)" : "");
    return w;
}

/* The decisive comparison: one local part, one mode, three call contexts. */
static void check_local(const char *sub, int mode, const unsigned char *s, size_t n) {
    unsigned char buf[MC_CASEMAX + 16];
    char cfg[64];
    if (n > MC_CASEMAX) return;
    snprintf(cfg, sizeof cfg, "mode=%s", mode_name(mode));
    mc_current(sub, cfg, s, n);
    int exp = ref_local(s, n, mode, REF_OPTS);
    MC_ADD(exp == R_ACC ? C_ACC : exp == R_REJ ? C_REJ : C_ANY, 1);
    /* context 0: NUL right after the local part */
    memcpy(buf, s, n); buf[n] = 0;
    int rc0 = LOCAL[mode]((const char *)buf, (const char *)buf + n);
    /* context 1: '@' right after it (what is_*_email passes) */
    memcpy(buf + n, "@ok.com", 8);
    int rc1 = LOCAL[mode]((const char *)buf, (const char *)buf + n);
    /* context 2: whole address through the object API */
    int r2 = eav_is_email(&EAV[mode], (const char *)buf, n + 7);
    int e2 = EAV[mode].errcode;
    MC_ADD(C_EVAL, 3);
    if (rc0 == 0) MC_ADD(C_IMPLACC, 1);
    int exp2 = (n > 64) ? R_REJ : exp;
    if (exp != R_ANY && (rc0 == 0) != (exp == R_ACC))
        mc_violation(sub, why_of(mode, s, n, exp, rc0, "local"), "", cfg, s, n, "is_%s_local(NUL-terminated): reference %s, library rc=%d", mode_name(mode), exp == R_ACC ? "ACCEPT" : "REJECT", rc0);
    if (exp != R_ANY && (rc1 == 0) != (exp == R_ACC))
        mc_violation(sub, why_of(mode, s, n, exp, rc1, "local@"), "", cfg, s, n, "is_%s_local(followed by '@'): reference %s, library rc=%d", mode_name(mode), exp == R_ACC ? "ACCEPT" : "REJECT", rc1);
    if (exp2 != R_ANY && (r2 == 1) != (exp2 == R_ACC))
        mc_violation(sub, n > 64 ? "email:lpart>64-accepted" : why_of(mode, s, n, exp2, -e2, "email"), "", cfg, s, n, "eav_is_email(L@ok.com) mode %s: reference %s, library returned %d errcode=%d", mode_name(mode), exp2 == R_ACC ? "ACCEPT" : "REJECT", r2, e2);
    /* a validator that refuses with a POSITIVE code: eav_is_email reads positive codes as TLD classes and hands them to the
     * policy mask, so such a refusal can turn into an acceptance - observe it there, with every class allowed */
    if (rc0 > 0 || rc1 > 0) {
        int r3 = eav_is_email(&EAVALL[mode], (const char *)buf, n + 7); MC_ADD(C_EVAL, 1);
        if (exp2 != R_ANY && (r3 == 1) != (exp2 == R_ACC))
            mc_violation(sub, "email:refused-local-part-accepted-under-permissive-policy", "", cfg, s, n,
                         "is_%s_local refused with the positive code %d; eav_is_email(L@ok.com, tld_check on, all classes allowed) returned %d errcode=%d, reference %s",
                         mode_name(mode), rc0 > 0 ? rc0 : rc1, r3, EAVALL[mode].errcode, exp2 == R_ACC ? "ACCEPT" : "REJECT");
    }
    /* context 3: the same local part in front of an address literal (the wrappers look for '@' and '[' themselves) */
    if (n + 16 < sizeof buf) { memcpy(buf + n, "@[192.0.2.1]", 13);
        int r4 = eav_is_email(&EAV[mode], (const char *)buf, n + 12); MC_ADD(C_EVAL, 1);
        if (exp2 != R_ANY && (r4 == 1) != (exp2 == R_ACC))
            mc_violation(sub, why_of(mode, s, n, exp2, -EAV[mode].errcode, "email-literal"), "", cfg, s, n, "eav_is_email(L@[192.0.2.1]) mode %s: reference %s, library returned %d errcode=%d", mode_name(mode), exp2 == R_ACC ? "ACCEPT" : "REJECT", r4, EAV[mode].errcode);
        memcpy(buf + n, "@ok.com", 8); }
    if (rc0 != rc1)
        mc_violation(sub, "depends-on-byte-after-end", "", cfg, s, n, "is_%s_local depends on the byte after the local part: rc=%d with NUL, rc=%d with '@'", mode_name(mode), rc0, rc1);
    /* more contexts: the range [start,end) sits in the middle of a longer buffer - whatever follows `end' must not matter
     * (a closing quote, continuation bytes of a truncated character, a folding tail, ...) */
    if (g_tails) {
        static const char *const TAIL[] = { " \"", "\"", "a\"", "\x80\x80\x80", "\xa9", ".", "\\\"", "\r\n \"", "\n \"a", " ", "\t\"." };
        for (unsigned t = 0; t < sizeof TAIL / sizeof TAIL[0]; t++) {
            size_t tl = strlen(TAIL[t]); memcpy(buf + n, TAIL[t], tl + 1);
            int rct = LOCAL[mode]((const char *)buf, (const char *)buf + n);
            MC_ADD(C_EVAL, 1);
            /* decisions only: which of two true reasons is reported for a rejected range may depend on the byte at `end'
             * (RFC 822 folding looks at it), the decision may not */
            if ((rct == 0) != (rc0 == 0)) { char w[64]; snprintf(w, sizeof w, "depends-on-bytes-after-end:tail-%u", t);
                mc_violation(sub, w, "", cfg, s, n, "is_%s_local(start,end) with more text after end: rc=%d, with a NUL at end rc=%d", mode_name(mode), rct, rc0); }
        }
    }
#ifdef C03
    /* pure-ASCII local parts: mode 6531 == mode 5321 (differential, no model) */
    int ascii = 1; for (size_t i = 0; i < n; i++) if (s[i] >= 0x80) { ascii = 0; break; }
    if (ascii && REF_OPTS == 0) {
        buf[n] = 0;
        int r5 = is_5321_local((const char *)buf, (const char *)buf + n);
        MC_ADD(C_EVAL, 1);
        if ((r5 == 0) != (rc0 == 0))
            mc_violation(sub, "ascii-6531-vs-5321", "", cfg, s, n, "pure-ASCII local part: is_6531_local rc=%d but is_5321_local rc=%d", rc0, r5);
    }
#endif
}

/* ---------------- alphabets ---------------- */
#ifdef C03
static const mc_tok_t SIGC[] = { MC_TOK("a"), MC_TOK("."), MC_TOK("\""), MC_TOK("\\"), MC_TOK(" "), MC_TOK("\x01"),
    MC_TOK("("), MC_TOK("\xd0\x96"), MC_TOK("\xe9\xa6\x99"), MC_TOK("\xf0\x9f\x98\x80"), MC_TOK("\x80"), MC_TOK("\xc3") };
static const mc_tok_t SIGW[] = { MC_TOK("a"), MC_TOK("."), MC_TOK("\""), MC_TOK("\\"), MC_TOK(" "), MC_TOK("\x01"),
    MC_TOK("("), MC_TOK("\xd0\x96"), MC_TOK("\xe9\xa6\x99"), MC_TOK("\xf0\x9f\x98\x80"), MC_TOK("\x80"), MC_TOK("\xc3"),
    MC_TOK("\x90"), MC_TOK("\xa0"), MC_TOK("\xbf") };
#else
static const mc_tok_t SIGC[] = { MC_TOK("a"), MC_TOK("."), MC_TOK("\""), MC_TOK("\\"), MC_TOK(" "), MC_TOK("\t"),
    MC_TOK("\r"), MC_TOK("\n"), MC_TOK("\x01"), MC_TOK("\x7f"), MC_TOK("("), MC_TOK("@"), MC_TOK("\x80") };
#define SIGW SIGC
#endif
#define NSIGC ((int)(sizeof SIGC / sizeof SIGC[0]))
#define NSIGW ((int)(sizeof SIGW / sizeof SIGW[0]))

/* ---------------- L1 ---------------- */
typedef struct { int mode; const char *sub; int nontriv; } l1arg_t;
static void l1_cb(const unsigned char *s, size_t n, int ntok, void *arg) {
    l1arg_t *a = arg;
    (void)ntok;
    for (int mi = 0; mi < NMODES; mi++) {
        check_local("L1", MODES[mi], s, n);
        MC_ADD(C_L1, 1);
        /* non-trivial: the reference is still alive before the last byte and the string has >= 2 bytes */
        if (n >= 2 && ref_run(s, n - 1, MODES[mi], REF_OPTS, 1) != REF_DEAD) MC_ADD(C_NONTRIV, 1);
    }
    (void)a;
}
static mc_enum_t L1E;
static void l1_shard(long shard, void *arg) { (void)arg; mc_enum_t e = L1E; mc_enum_shard(&e, shard); }

/* L1spec: every special on its own - the reference has ONE class 'special', so the W-method takes one representative; a front end that gives two
 * specials a meaning of their own (a source route "@hop,@hop:", a group "name:...;", a path "<...>", a comment "(...)") only shows on strings that
 * hold two different ones in the right order.  All strings of <= 5 (thorough 6) tokens over {a . @ ( ) < > , ; : [ ] " \ SP !}, all call contexts. */
static const mc_tok_t SIGX[] = { MC_TOK("a"), MC_TOK("."), MC_TOK("@"), MC_TOK("("), MC_TOK(")"), MC_TOK("<"), MC_TOK(">"), MC_TOK(","), MC_TOK(";"), MC_TOK(":"),
    MC_TOK("["), MC_TOK("]"), MC_TOK("\""), MC_TOK("\\"), MC_TOK(" "), MC_TOK("!") };
static void l1spec_cb(const unsigned char *s, size_t n, int ntok, void *arg) {
    (void)ntok; (void)arg;
    for (int mi = 0; mi < NMODES; mi++) { check_local("L1spec", MODES[mi], s, n); MC_ADD(C_L1, 1); }
}
static mc_enum_t L1X;
static void l1spec_shard(long shard, void *arg) { (void)arg; mc_enum_t e = L1X; mc_enum_shard(&e, shard); }

/* thorough only: one token deeper, NUL-terminated context only */
static int C_L1D;
static void l1deep_cb(const unsigned char *s, size_t n, int ntok, void *arg) {
    (void)arg;
    if (ntok < L1E.N + 1) return;            /* shorter strings were done with all contexts */
    char buf[80]; memcpy(buf, s, n); buf[n] = 0;
    for (int mi = 0; mi < NMODES; mi++) {
        int mode = MODES[mi];
        int exp = ref_local(s, n, mode, REF_OPTS);
        int rc0 = LOCAL[mode](buf, buf + n);
        MC_ADD(C_EVAL, 1); MC_ADD(C_L1D, 1);
        if (exp != R_ANY && (rc0 == 0) != (exp == R_ACC)) {
            char cfg[32]; snprintf(cfg, sizeof cfg, "mode=%s", mode_name(mode));
            mc_violation("L1", why_of(mode, s, n, exp, rc0, "local"), "", cfg, s, n, "is_%s_local(NUL-terminated): reference %s, library rc=%d", mode_name(mode), exp == R_ACC ? "ACCEPT" : "REJECT", rc0);
        }
    }
}
static void l1deep_shard(long shard, void *arg) { (void)arg; mc_enum_t e = L1E; e.N = L1E.N + 1; e.fn = l1deep_cb; mc_enum_shard(&e, shard); }

/* L1small: DEPTH instead of breadth - all strings of <= 10 (thorough 12) tokens over the six structure classes {a " \ . SP X} (X = U+0416 for mode 6531,
 * HT for the ASCII modes), NUL-terminated context.  A scanner that carries one hidden bit from one quoted word into a later one needs two quoted
 * words with white space inside, i.e. nine or ten tokens, before its decision differs. */
#ifdef C03
static const mc_tok_t SIGS[] = { MC_TOK("a"), MC_TOK("\""), MC_TOK("\\"), MC_TOK("."), MC_TOK(" "), MC_TOK("\xd0\x96"), MC_TOK("#") };     /* '#': seventh class, used when the RFC 20 option is in the reference */
#else
static const mc_tok_t SIGS[] = { MC_TOK("a"), MC_TOK("\""), MC_TOK("\\"), MC_TOK("."), MC_TOK(" "), MC_TOK("\t") };
#endif
static int C_L1S;
static void l1small_cb(const unsigned char *s, size_t n, int ntok, void *arg) {
    (void)arg; (void)ntok; if (n == 0) return;
    char buf[96]; memcpy(buf, s, n); buf[n] = 0;
    for (int mi = 0; mi < NMODES; mi++) {
        int mode = MODES[mi];
        int exp = ref_local(s, n, mode, REF_OPTS);
        int rc0 = LOCAL[mode](buf, buf + n);
        MC_ADD(C_EVAL, 1); MC_ADD(C_L1S, 1);
        if (exp != R_ANY && (rc0 == 0) != (exp == R_ACC)) {
            char cfg[32]; snprintf(cfg, sizeof cfg, "mode=%s", mode_name(mode));
            mc_violation("L1", why_of(mode, s, n, exp, rc0, "local"), "", cfg, s, n, "is_%s_local(NUL-terminated): reference %s, library rc=%d", mode_name(mode), exp == R_ACC ? "ACCEPT" : "REJECT", rc0);
        }
    }
}
static mc_enum_t L1S;
static void l1small_shard(long shard, void *arg) { (void)arg; mc_enum_t e = L1S; mc_enum_shard(&e, shard); }

/* ---------------- L2 ---------------- */
typedef struct { int mode, opts; } pctx_t;
static int p_step(int ps, int b, void *c) {
    pctx_t *x = c;
    return ref_step(ps & 0xfff, b, x->mode, x->opts, 0) | (ref_step(ps >> 12, b, x->mode, x->opts, 1) << 12);
}
static int p_out(int ps, void *c) {
    (void)c; int a = ref_accepting(ps & 0xfff), b = ref_accepting(ps >> 12);
    return a && b ? R_ACC : (!a && !b) ? R_REJ : R_ANY;
}
static dfa_t DFA[4]; static pctx_t PCTX[4];
static int L2K = 3;

typedef struct { int mode; int state; int byte; unsigned char pre[40]; int prelen; } l2arg_t;
static void l2_cb(const unsigned char *s, size_t n, int ntok, void *arg) {
    (void)ntok; l2arg_t *a = arg;
    check_local("L2", a->mode, s, n);
    MC_ADD(C_L2, 1);
}
static int L2M = 2;
static int C_L2W;
static void l2w_cb(const unsigned char *s, size_t n, int ntok, void *arg) {
    (void)ntok; l2arg_t *a = arg; dfa_t *d = &DFA[a->mode];
    unsigned char t[96];
    if (n + DFA_MAXW > sizeof t) return;
    memcpy(t, s, n);
    for (int w = 0; w < d->nW; w++) {
        memcpy(t + n, d->W[w], (size_t)d->Wlen[w]);
        check_local("L2W", a->mode, t, n + (size_t)d->Wlen[w]);
        MC_ADD(C_L2W, 1);
    }
}
/* shard = (mode index, state index, byte) */
static void l2_shard(long shard, void *arg) {
    (void)arg;
    int b = (int)(shard % 255) + 1; shard /= 255;
    int mi = 0; long s = shard;
    while (s >= DFA[MODES[mi]].n) { s -= DFA[MODES[mi]].n; mi++; }
    int mode = MODES[mi]; dfa_t *d = &DFA[mode];
    mc_enum_t e; memset(&e, 0, sizeof e);
    e.A = SIGW; e.nA = NSIGW; e.N = L2K; e.k = 0;
    l2arg_t a = { mode, (int)s, b, {0}, 0 };
    e.fn = l2_cb; e.arg = &a;
    size_t len = (size_t)d->acclen[s];
    memcpy(e.buf, d->acc[s], len); e.buf[len++] = (unsigned char)b;
    mc_enum_rec(&e, len, 0);
    /* explicit W-method suite: a_q b mid w, mid in tokens^<=m, w in W */
    {
        mc_enum_t e2; memset(&e2, 0, sizeof e2);
        e2.A = SIGW; e2.nA = NSIGW; e2.N = L2M; e2.k = 0; e2.fn = l2w_cb; e2.arg = &a;
        memcpy(e2.buf, e.buf, len);
        mc_enum_rec(&e2, len, 0);
    }
    /* pairs: a_q b b' w', |w'| <= 1 */
    for (int b2 = 1; b2 < 256; b2++) {
        unsigned char t[64]; size_t l2 = (size_t)d->acclen[s];
        memcpy(t, d->acc[s], l2); t[l2++] = (unsigned char)b; t[l2++] = (unsigned char)b2;
        check_local("L2pair", mode, t, l2); MC_ADD(C_L2P, 1);
        for (int w = 0; w < NSIGW; w++) {
            memcpy(t + l2, SIGW[w].b, (size_t)SIGW[w].n);
            check_local("L2pair", mode, t, l2 + (size_t)SIGW[w].n); MC_ADD(C_L2P, 1);
        }
    }
}

/* ---------------- L3: long inputs, <= 2 deviations ---------------- */
static int L3MAX1 = 80, L3MAX2 = 20;
static const char *const FILL[] = { "a", "a.", "\"a\".", "\"\\\\\"." };   /* repeated, last '.' trimmed */
#define NFILL 4
static size_t make_fill(unsigned char *out, const char *unit, int reps) {
    size_t l = 0, ul = strlen(unit);
    for (int i = 0; i < reps; i++) { memcpy(out + l, unit, ul); l += ul; }
    if (l && out[l - 1] == '.' && ul > 1) l--;
    return l;
}
static void l3_shard(long shard, void *arg) {
    (void)arg;
    int fi = (int)(shard % NFILL); int reps = (int)(shard / NFILL) + 1;
    unsigned char base[1024], t[1100];
    size_t bl = make_fill(base, FILL[fi], reps);
    for (int mi = 0; mi < NMODES; mi++) {
        int mode = MODES[mi];
        check_local("L3", mode, base, bl); MC_ADD(C_L3, 1);
        /* one deviation: replace / insert a token at every position */
        for (size_t p = 0; p <= bl; p++) for (int w = 0; w < NSIGC; w++) {
            size_t tl = (size_t)SIGC[w].n;
            memcpy(t, base, p); memcpy(t + p, SIGC[w].b, tl); memcpy(t + p + tl, base + p, bl - p);
            check_local("L3", mode, t, bl + tl); MC_ADD(C_L3, 1);           /* insertion */
            if (p < bl) {
                memcpy(t + p + tl, base + p + 1, bl - p - 1);
                check_local("L3", mode, t, bl + tl - 1); MC_ADD(C_L3, 1);   /* substitution */
            }
        }
        /* two deviations (insertions) for short bases */
        if (reps <= L3MAX2)
            for (size_t p = 0; p <= bl; p++) for (size_t q = p; q <= bl; q++)
                for (int w = 0; w < NSIGC; w++) for (int v = 0; v < NSIGC; v++) {
                    size_t l = 0;
                    memcpy(t + l, base, p); l += p;
                    memcpy(t + l, SIGC[w].b, (size_t)SIGC[w].n); l += (size_t)SIGC[w].n;
                    memcpy(t + l, base + p, q - p); l += q - p;
                    memcpy(t + l, SIGC[v].b, (size_t)SIGC[v].n); l += (size_t)SIGC[v].n;
                    memcpy(t + l, base + q, bl - q); l += bl - q;
                    check_local("L3", mode, t, l); MC_ADD(C_L3, 1);
                }
    }
}

#ifdef C03
/* ---------------- UTF-8 sweeps ---------------- */
static void utf8_contexts(const char *sub, const unsigned char *x, size_t xl) {
    unsigned char t[32]; size_t l;
    check_local(sub, RM_6531, x, xl);
    l = 0; t[l++] = 'a'; memcpy(t + l, x, xl); l += xl; t[l++] = 'b'; check_local(sub, RM_6531, t, l);
    l = 0; t[l++] = '"'; memcpy(t + l, x, xl); l += xl; t[l++] = '"'; check_local(sub, RM_6531, t, l);
    l = 0; t[l++] = '"'; t[l++] = '\\'; memcpy(t + l, x, xl); l += xl; t[l++] = '"'; check_local(sub, RM_6531, t, l);
    l = 0; t[l++] = 'a'; t[l++] = '.'; memcpy(t + l, x, xl); l += xl; t[l++] = '.'; t[l++] = 'b'; check_local(sub, RM_6531, t, l);
    MC_ADD(C_U, 5);
}
static void u12_shard(long shard, void *arg) {       /* shard = first byte; 1- and 2-byte sequences */
    (void)arg; unsigned char x[4]; x[0] = (unsigned char)(shard + 1);
    utf8_contexts("U1", x, 1);
    for (int b = 1; b < 256; b++) { x[1] = (unsigned char)b; utf8_contexts("U2", x, 2); }
}
static void u3_shard(long shard, void *arg) {        /* shard = (first, second) byte */
    (void)arg; unsigned char x[4];
    x[0] = (unsigned char)(shard / 255 + 1); x[1] = (unsigned char)(shard % 255 + 1);
    for (int c = 1; c < 256; c++) { x[2] = (unsigned char)c; utf8_contexts("U3", x, 3); }
}
static const unsigned char BND[] = { 0x01, 0x7f, 0x80, 0x8f, 0x90, 0x9f, 0xa0, 0xbf, 0xc0, 0xff };
static void u4_shard(long shard, void *arg) {        /* shard = lead byte; continuation bytes from the boundary set */
    (void)arg; unsigned char x[4]; x[0] = (unsigned char)(shard + 1);
    for (unsigned i = 0; i < sizeof BND; i++) for (unsigned j = 0; j < sizeof BND; j++) for (unsigned k = 0; k < sizeof BND; k++) {
        x[1] = BND[i]; x[2] = BND[j]; x[3] = BND[k]; utf8_contexts("U4", x, 4);
    }
    /* neighbourhoods of the range edges: F0 8F/90, F4 8F/90, with all third bytes and boundary fourth bytes */
    if (x[0] == 0xf0 || x[0] == 0xf4 || x[0] == 0xf3 || x[0] == 0xf1 || x[0] == 0xf5)
        for (int b = 0x80; b <= 0xbf; b++) for (int c = 1; c < 256; c++) for (unsigned k = 0; k < sizeof BND; k++) {
            x[1] = (unsigned char)b; x[2] = (unsigned char)c; x[3] = BND[k]; utf8_contexts("U4", x, 4);
        }
}
static void u4full_shard(long shard, void *arg) {    /* thorough: all 4-byte sequences, stand-alone and a.X.b contexts */
    (void)arg; unsigned char x[8], t[12];
    x[0] = (unsigned char)(shard / 255 + 1); x[1] = (unsigned char)(shard % 255 + 1);
    /* only lead bytes >= 0x80 are interesting for 4-byte exhaustiveness; ASCII leads are covered by U1-U3 + L1/L2 */
    if (x[0] < 0x80) return;
    for (int c = 1; c < 256; c++) for (int d = 1; d < 256; d++) {
        x[2] = (unsigned char)c; x[3] = (unsigned char)d;
        check_local("U4full", RM_6531, x, 4);
        t[0] = 'a'; t[1] = '.'; memcpy(t + 2, x, 4); t[6] = '.'; t[7] = 'b';
        check_local("U4full", RM_6531, t, 8);
        MC_ADD(C_U, 2);
    }
}
/* every non-ASCII scalar X (all 1,111,936 - 128 of them) in 34 surroundings: what stands before and after a non-ASCII character - atom text,
 * a dot, a quote on either side, a backslash, white space, the quoted counterparts, the character doubled - against the reference; a.X.b must be
 * accepted.  A rule that looks at the previous / next character through a truncated or re-encoded value shows for a few code points only. */
static int C_SCALARS;
static const char *const XPRE[34]  = { "a.", "", "a", "", "", ".", "", "\"a\"", "", "\"", "\"", "\"a", "\"", "\" ", "\"", "\"a ", "\"", "\"\\", "\"", "\"", "\"", "a.\"", "", "\\", "", " ", "", "a.\"", "\"", "\"a\".", "", "\"\"", "(", "a\"" };
static const char *const XPOST[34] = { ".b", "", "", "a", ".", "", "\"a\"", "", "\"", "", "\"", "\"", "a\"", "\"", " \"", "\"", " a\"", "\"", "\\\"\"", ".\"", "\".a", "\"", "\\a", "", " ", "", "@", "\".b", "\"a", "", ".\"a\"", "", ")", "" };
static void scalar_shard(long shard, void *arg) {
    (void)arg;
    unsigned long lo = (unsigned long)shard * 0x1000, hi = lo + 0x1000;
    for (unsigned long cp = lo; cp < hi; cp++) {
        if (cp < 0x80 || (cp >= 0xd800 && cp <= 0xdfff) || cp > 0x10ffff) continue;
        unsigned char x[4], t[40]; size_t xl = 0;
        if (cp < 0x800) { x[xl++] = (unsigned char)(0xc0 | (cp >> 6)); x[xl++] = (unsigned char)(0x80 | (cp & 0x3f)); }
        else if (cp < 0x10000) { x[xl++] = (unsigned char)(0xe0 | (cp >> 12)); x[xl++] = (unsigned char)(0x80 | ((cp >> 6) & 0x3f)); x[xl++] = (unsigned char)(0x80 | (cp & 0x3f)); }
        else { x[xl++] = (unsigned char)(0xf0 | (cp >> 18)); x[xl++] = (unsigned char)(0x80 | ((cp >> 12) & 0x3f)); x[xl++] = (unsigned char)(0x80 | ((cp >> 6) & 0x3f)); x[xl++] = (unsigned char)(0x80 | (cp & 0x3f)); }
        for (int k = 0; k < 34; k++) for (int dbl = 0; dbl < 2; dbl++) {
            size_t l = 0, a = strlen(XPRE[k]), b = strlen(XPOST[k]);
            memcpy(t, XPRE[k], a); l = a; memcpy(t + l, x, xl); l += xl; if (dbl) { memcpy(t + l, x, xl); l += xl; } memcpy(t + l, XPOST[k], b); l += b;
            check_local(k == 0 && !dbl ? "a.X.b" : "scalar-ctx", RM_6531, t, l);
            if (k == 0 && !dbl) { t[l] = 0;
                if (is_6531_local((const char *)t, (const char *)t + l) != 0) mc_violation("a.X.b", "a.X.b-rejected", "", "mode=6531", t, l, "a.X.b rejected for scalar U+%04lX", cp);
                MC_ADD(C_EVAL, 1); }
            MC_ADD(C_SCALARS, 1);
        }
    }
}
#endif

/* ---------------- replay ---------------- */
/* ---------------- align: the same strings at every start alignment ----------------
 * A scanner that reads the input a machine word at a time behaves differently depending on where the string starts in memory.  Atom and quoted strings
 * of 1..48 characters with one deviating byte (high bit, control, special, quote, dot, backslash, space) at every position, placed at each of the 16
 * start offsets of a 16-byte aligned buffer (NUL-terminated there, nothing else moved); reference verdict. */
static int C_ALIGN;
static void align_shard(long shard, void *arg) {
    (void)arg; int L = (int)shard + 1;
    static const unsigned char DEV[] = { 0x80, 0xc3, 0xff, '"', '.', ' ', 0x01, '\\', '(', 0x7f };
    static unsigned char big[256] __attribute__((aligned(16)));
    for (int quoted = 0; quoted < 2; quoted++) for (int p = -1; p < L; p++) for (unsigned d = 0; d < (p < 0 ? 1 : sizeof DEV); d++) {
        unsigned char t[64]; size_t n = 0;
        if (quoted) t[n++] = '"';
        for (int i = 0; i < L; i++) t[n++] = (i == p) ? DEV[d] : (unsigned char)('a' + i % 26);
        if (quoted) t[n++] = '"';
        for (int mi = 0; mi < NMODES; mi++) {
            int mode = MODES[mi]; int exp = ref_local(t, n, mode, REF_OPTS); if (exp == R_ANY) continue;
            for (int off = 0; off < 16; off++) {
                memset(big, 0, sizeof big); memcpy(big + 16 + off, t, n);
                int rc = LOCAL[mode]((const char *)big + 16 + off, (const char *)big + 16 + off + n); MC_ADD(C_EVAL, 1); MC_ADD(C_ALIGN, 1);
                if ((rc == 0) != (exp == R_ACC)) { char cfg[64]; snprintf(cfg, sizeof cfg, "mode=%s align=%d", mode_name(mode), off);
                    char w[96]; snprintf(w, sizeof w, "align:%s:%s-at-start-offset-%d", mode_name(mode), exp == R_ACC ? "rejects-valid" : "accepts-invalid", off);
                    mc_violation("align", w, "", cfg, t, n, "is_%s_local at start address = 16k+%d: reference %s, library rc=%d", mode_name(mode), off, exp == R_ACC ? "ACCEPT" : "REJECT", rc); }
            }
        }
    }
}

/* ---------------- huge: local parts of 2^8 .. 2^32 characters ----------------
 * The local validators have no length limit of their own (64 octets is the address validators' business, C01), so their verdict on a very long
 * range is defined by the grammar alone.  Shapes with a structural feature at the START (2^31 and more bytes follow it) or at the END (2^31 and
 * more bytes precede it), expected verdict by construction; lengths k*2^8+d, k*2^16+d, thorough: 2^31+d, 2^32+d.  A distance or index kept in an
 * int / unsigned / short goes wrong here and nowhere else.  Views into one buffer of 'a's shared copy-on-write by the workers. */
#include <sys/mman.h>
static unsigned char *HB; static size_t HBCAP; static int C_HUGE; static int g_huge_mode = -1;   /* -1: all modes of this driver */
static size_t HUGE_L[256]; static int HUGE_N;
typedef struct { const char *pre, *post; int acc; /* 1 accept, 0 reject, in every mode of this driver; 2: accept in 822 only */ } hshape_t;
static const hshape_t HSH[] = {
    { "", "", 1 }, { "a.b", "", 1 }, { "", ".b", 1 }, { "\"", "\"", 1 }, { "\"a\".", "", 1 }, { "", ".\"a\"", 1 },
    { "\"a\"b", "", 0 }, { "a..b", "", 0 }, { ".", "", 0 }, { "", ".", 0 }, { "", "..b", 0 }, { "", "\"", 0 }, { "\"", "", 0 }, { "a\"", "\"", 0 },
    { "\"a\"", "", 0 }, { "", "\"a\"", 0 }, { "a b", "", 0 }, { "", " b", 0 }, { "\"\r\n ", "\"", 2 }, { "\"", "\r\n \"", 2 },
    /* white space inside a quoted string whose verdict depends on the character BEFORE it (RFC 5322 mode: allowed right after the opening quote, not between
     * two letters): a look-behind through a truncated index reads a byte 2^8 / 2^16 / 2^32 positions earlier - a letter instead of the quote, or the reverse */
    { "", ".\" b\"", 1 }, { "\"", " ba\"", 2 }, { "\"", " \"", 1 }, { "\" ", "\"", 1 }, { "\"a b", "\"", 2 },
#ifdef C03
    { "\xd0\xb6.", "", 1 }, { "", ".\xd0\xb6", 1 }, { "\xd0\xb6\"", "\"", 0 }, { "\xff", "", 0 }, { "", "\xd0", 0 },
#endif
};
#define NHSH ((int)(sizeof HSH / sizeof HSH[0]))
static void huge_lengths(void) {
    HUGE_N = 0;
    for (int k = 1; k <= 4; k++) for (size_t d = 0; d <= 2; d++) HUGE_L[HUGE_N++] = (size_t)k * 256 + d;
    static const int K16[] = { 1, 2, 16 };
    for (int i = 0; i < 3; i++) for (size_t d = 0; d <= 5; d++) HUGE_L[HUGE_N++] = (size_t)K16[i] * 65536 + d;
    if (!mc_thorough) { HUGE_L[HUGE_N++] = ((size_t)1 << 31) + 5; HUGE_L[HUGE_N++] = ((size_t)1 << 32) + 5; }      /* one length beyond INT_MAX and one beyond UINT_MAX in the quick tier too */
    if (mc_thorough) { static const size_t B[] = { (size_t)1 << 24, (size_t)1 << 31, (size_t)1 << 32 }; static const size_t D[] = { 0, 1, 5 };
        for (int i = 0; i < 3; i++) for (int j = 0; j < 3; j++) HUGE_L[HUGE_N++] = B[i] + D[j]; }
}
static void huge_alloc(size_t maxl) {
    HBCAP = maxl + 8192;
    HB = mmap(NULL, HBCAP, PROT_READ | PROT_WRITE, MAP_PRIVATE | MAP_ANONYMOUS | MAP_NORESERVE, -1, 0);
    if (HB == MAP_FAILED) { perror("mmap"); exit(2); }
    memset(HB, 'a', HBCAP);
}
static void huge_case(int sh, size_t L) {
    const hshape_t *h = &HSH[sh]; size_t a = strlen(h->pre), b = strlen(h->post);
    if (L + a + b + 64 > HBCAP) return;
    unsigned char *p = HB + 4096 - a; memcpy(p, h->pre, a); memcpy(p + a + L, h->post, b); p[a + L + b] = 0;
    size_t n = a + L + b;
    for (int mi = 0; mi < NMODES; mi++) {
        int mode = MODES[mi]; if (g_huge_mode >= 0 && mode != g_huge_mode) continue;
        char cfg[96]; snprintf(cfg, sizeof cfg, "huge=1 shape=%d len=%zu mode=%s", sh, L, mode_name(mode));
        mc_current("huge", cfg, (const unsigned char *)"", 0);
        /* the grammar has no counters: the verdict for L filler characters is the reference's verdict for 70 of them */
        unsigned char small[128]; memcpy(small, h->pre, a); memset(small + a, 'a', 70); memcpy(small + a + 70, h->post, b);
        int rv = ref_local(small, a + 70 + b, mode, REF_OPTS); if (rv == R_ANY) continue;
        int want = rv == R_ACC;
        int rc = LOCAL[mode]((const char *)p, (const char *)p + n); MC_ADD(C_EVAL, 1); MC_ADD(C_HUGE, 1);
        if ((rc == 0) != (want == 1)) { char w[96]; snprintf(w, sizeof w, "huge:%s:shape-%d:%s", mode_name(mode), sh, want ? "rejects-valid" : "accepts-invalid");
            mc_violation("huge", w, "", cfg, (const unsigned char *)"", 0, "is_%s_local on %s + %zu x 'a' + %s: rc=%d, expected %s", mode_name(mode), h->pre[0] ? "a prefix" : "nothing", L, h->post[0] ? "a suffix" : "nothing", rc, want ? "accept" : "reject"); }
    }
    memset(HB + 4096 - 16, 'a', 32); memset(HB + 4096 + L - 8, 'a', 40);
}
static void huge_shard(long shard, void *arg) {     /* shard = (length, shape, mode): the longest cases take seconds each */
    (void)arg; int li = (int)(shard / (NHSH * NMODES)), sh = (int)(shard / NMODES % NHSH);
    if (HUGE_L[li] < ((size_t)1 << 20)) { if (shard % NMODES == 0) huge_case(sh, HUGE_L[li]); return; }
    g_huge_mode = MODES[shard % NMODES]; huge_case(sh, HUGE_L[li]); g_huge_mode = -1;
}

static int do_replay(void) {
    mc_replay_t r;
    if (mc_load_replay(mc_replay, &r)) return 2;
    int mode = mode_of_name(mc_cfg_int(r.cfg, "mode", 5321));
    mc_replay_hit = 0;
    if (!strcmp(r.sub, "align")) { static unsigned char big[256] __attribute__((aligned(16))); int off = (int)mc_cfg_int(r.cfg, "align", 0); memcpy(big + 16 + off, r.in, (size_t)r.len);
        int exp = ref_local(r.in, (size_t)r.len, mode, REF_OPTS); int rc = LOCAL[mode]((const char *)big + 16 + off, (const char *)big + 16 + off + r.len);
        if (exp != R_ANY && (rc == 0) != (exp == R_ACC)) mc_replay_hit++; }
    else if (mc_cfg_int(r.cfg, "huge", 0)) { size_t L = (size_t)strtoull(strstr(r.cfg, "len=") + 4, NULL, 10); huge_alloc(L); huge_case((int)mc_cfg_int(r.cfg, "shape", 0), L); }
    else
    check_local(r.sub, mode, r.in, (size_t)r.len);
    printf("replay %s: %s\n", mc_replay, mc_replay_hit ? "VIOLATION reproduced" : "no violation");
    return mc_replay_hit ? 1 : 0;
}

int main(int argc, char **argv) {
    mc_init(argc, argv, PROP);
    C_L1 = mc_counter("L1_strings_x_modes"); C_L2 = mc_counter("L2_strings"); C_L2P = mc_counter("L2_pair_strings");
    C_L2W = mc_counter("L2_Wmethod_strings"); L2M = mc_thorough ? 3 : 2;
    C_L3 = mc_counter("L3_strings"); C_L1D = mc_counter("L1_deep_strings_x_modes"); C_U = mc_counter("utf8_sweep_strings");
    C_ACC = mc_counter("ref_accept"); C_REJ = mc_counter("ref_reject"); C_ANY = mc_counter("ref_any"); C_IMPLACC = mc_counter("impl_accept"); C_HUGE = mc_counter("huge_length_calls"); C_L1S = mc_counter("L1small_strings_x_modes"); C_ALIGN = mc_counter("alignment_calls");
#ifdef C03
    C_SCALARS = mc_counter("scalar_x_surrounding_strings");
#endif
    setup_objects();
    if (mc_replay) return do_replay();
    int core = 0, with_scalars = 0; for (int i = 1; i < argc; i++) { if (!strcmp(argv[i], "--core")) core = 1; if (!strcmp(argv[i], "--scalars")) with_scalars = 1; }   /* C17's steps on the option builds: automaton product and token strings only */

    /* reference automata: reachable states, classes, characterisation set */
    long l2shards = 0; int states = 0, classes = 0, maxw = 0;
    for (int mi = 0; mi < NMODES; mi++) {
        int m = MODES[mi]; dfa_t *d = &DFA[m];
        PCTX[m].mode = m; PCTX[m].opts = REF_OPTS;
        d->step = p_step; d->out = p_out; d->ctx = &PCTX[m]; d->init = G_START | (G_START << 12);
        dfa_explore(d);
        if (dfa_charset(d, (const dfa_tok_t *)SIGW, NSIGW) != 0) {
            fprintf(stderr, "harness error: token alphabet does not separate the reference states of mode %s\n", mode_name(m));
            return 2;
        }
        states += d->n; classes += d->ncls; if (d->maxW > maxw) maxw = d->maxW;
        l2shards += (long)d->n * 255;
        mc_extra_add("%s\"dfa_%s\":{\"reachable_states\":%d,\"classes\":%d,\"W_strings\":%d,\"W_maxlen_tokens\":%d}",
                     mi ? "," : "", mode_name(m), d->n, d->ncls, d->nW, d->maxW);
    }
    mc_extra_add(",\"ref_states\":%d,\"ref_classes\":%d,\"ref_transitions\":%ld,\"L2_k\":%d,\"W_maxlen\":%d,\"extra_states_m\":%d",
                 states, classes, l2shards, L2K, maxw, L2M);

    /* L2 first (cheap, and the binding step), then L1 with iterated bound, then L3 and sweeps */
    mc_parallel("L2:states x 255 bytes x tokens^<=3 (+pairs)", l2shards, l2_shard, NULL);
#ifdef C03
    if (!core) {
    mc_parallel("U1+U2: all 1- and 2-byte sequences x 5 contexts", 255, u12_shard, NULL);
    mc_parallel("U3: all 3-byte sequences x 5 contexts", 255 * 255, u3_shard, NULL);
    mc_parallel("U4: lead x boundary continuation bytes x 5 contexts", 255, u4_shard, NULL);
    }
    if (!core || with_scalars)
    mc_parallel("every non-ASCII scalar, single and doubled, in 34 surroundings (a.X.b among them)", 0x110000 / 0x1000, scalar_shard, NULL);
#endif
    mc_parallel("align: atom / quoted strings of 1..48 characters, one deviating byte at every position, at each of 16 start alignments", 48, align_shard, NULL);
    if (!core) { huge_lengths(); size_t mx = 0; for (int i = 0; i < HUGE_N; i++) if (HUGE_L[i] > mx) mx = HUGE_L[i];
      huge_alloc(mx); char nmh[160]; snprintf(nmh, sizeof nmh, "huge: %d shapes (feature at the start / at the end) x %d lengths k*2^8+d, k*2^16+d%s", NHSH, HUGE_N, mc_thorough ? ", 2^24+d, 2^31+d, 2^32+d" : ", 2^31+5, 2^32+5");
      mc_parallel(nmh, (long)HUGE_N * NHSH * NMODES, huge_shard, NULL); munmap(HB, HBCAP); }
    int n1 = mc_thorough ? 8 : 6;
    memset(&L1E, 0, sizeof L1E);
    L1E.A = SIGC; L1E.nA = NSIGC; L1E.N = n1; L1E.k = 3; L1E.fn = l1_cb; L1E.arg = NULL;
    {
        char nm[64]; snprintf(nm, sizeof nm, "L1:all strings of <= %d tokens over %d classes", n1, NSIGC);
        mc_parallel(nm, mc_enum_shards(&L1E), l1_shard, NULL);
    }
    { memset(&L1X, 0, sizeof L1X); L1X.A = SIGX; L1X.nA = 16; L1X.N = mc_thorough ? 6 : 5; L1X.k = 2; L1X.fn = l1spec_cb;
      char nm[96]; snprintf(nm, sizeof nm, "L1spec: all strings of <= %d tokens over {a . @ ( ) < > , ; : [ ] \" \\ SP !}, all contexts", L1X.N);
      mc_parallel(nm, mc_enum_shards(&L1X), l1spec_shard, NULL); }
    { memset(&L1S, 0, sizeof L1S); L1S.A = SIGS; L1S.nA = (REF_OPTS & RO_RFC20) ? 7 : 6; L1S.N = (REF_OPTS & RO_RFC20) ? (mc_thorough ? 11 : 9) : (mc_thorough ? 12 : 10); L1S.k = 3; L1S.fn = l1small_cb;
      char nm[96]; snprintf(nm, sizeof nm, "L1small: all strings of <= %d tokens over the six structure classes, NUL-terminated context", L1S.N);
      mc_parallel(nm, mc_enum_shards(&L1S), l1small_shard, NULL); }
    if (mc_thorough) {
        char nm[96]; snprintf(nm, sizeof nm, "L1+: all strings of exactly %d tokens, NUL-terminated context", n1 + 1);
        mc_parallel(nm, mc_enum_shards(&L1E), l1deep_shard, NULL);
    }
    L3MAX1 = mc_thorough ? 120 : 70; L3MAX2 = mc_thorough ? 16 : 8;
    mc_parallel("L3:long inputs, <=2 deviations", (long)NFILL * L3MAX1, l3_shard, NULL);
#ifdef C03
    if (mc_thorough)
        mc_parallel("U4full: all 4-byte sequences (non-ASCII lead), alone and as a.X.b", 255 * 255, u4full_shard, NULL);
#endif
    return mc_finish();
}
