/* c01.c - C01: address decision = split at the last '@' + composition of the per-part validators.
 * Oracles per input, mode, tld_check:
 *   (i)   ref_email: three-valued reference built from ref_local / ref_domainpart / independent IDN conversion (tld off)
 *   (ii)  composition: the library's own public part validators run on stand-alone NUL-terminated copies of L and D;
 *         a negative rc of the address call must be one whose condition holds (DC-4), a non-negative rc must be exact
 *   (iii) eav_is_email(mode m) == is_m_email, with the mode selected before setup, after an earlier setup of another
 *         mode, and unaffected by writing eav->rfc without eav_setup
 */
#include "corpus.h"
#include "../ref/ref_idn.h"
#include <eav.h>
#include <eav/auto_tld.h>

#ifndef REF_OPTS
#define REF_OPTS 0
#endif

static int C_L1, C_L2, C_L3, C_ACC, C_REJ, C_ANY, C_IMPLACC, C_COMPVALID, C_IDN;

typedef eav_result_t *(*email_fn)(const char *, size_t, bool);
static email_fn EMAIL[4] = { is_822_email, is_5321_email, is_5322_email, is_6531_email };
typedef int (*local_fn)(const char *, const char *);
static local_fn LOCAL[4] = { is_822_local, is_5321_local, is_5322_local, is_6531_local };
static const char *MN[4] = { "822", "5321", "5322", "6531" };
static const EAV_RFC RFC[4] = { EAV_RFC_822, EAV_RFC_5321, EAV_RFC_5322, EAV_RFC_6531 };
static eav_t OBJ[4][2], OBJ_B[4], OBJ_C[4], OBJ_D[4], OBJ_E[4];

static void mk(eav_t *e, int m, int tld) {
    memset(e, 0, sizeof *e); eav_init(e); e->rfc = RFC[m]; e->tld_check = tld;
    if (eav_setup(e) != 0) { fprintf(stderr, "setup failed\n"); exit(2); }
}
static void setup_objects(void) {
    for (int m = 0; m < 4; m++) {
        mk(&OBJ[m][0], m, 0); mk(&OBJ[m][1], m, 1);
        mk(&OBJ_B[m], (m + 1) % 4, 0); OBJ_B[m].rfc = RFC[m]; if (eav_setup(&OBJ_B[m]) != 0) exit(2);
        mk(&OBJ_C[m], m, 0); OBJ_C[m].rfc = RFC[(m + 2) % 4];          /* written, never confirmed */
        mk(&OBJ_D[m], m, 0); if (eav_setup(&OBJ_D[m]) != 0 || eav_setup(&OBJ_D[m]) != 0) exit(2);      /* the same mode confirmed three times */
        mk(&OBJ_E[m], m, 0); OBJ_E[m].rfc = RFC[(m + 3) % 4]; if (eav_setup(&OBJ_E[m])) exit(2); OBJ_E[m].rfc = RFC[m]; if (eav_setup(&OBJ_E[m])) exit(2);   /* m, other, m */
    }
}

static int tld_bit(int cls) {
    switch (cls) {
    case TLD_TYPE_NOT_ASSIGNED: return EAV_TLD_NOT_ASSIGNED; case TLD_TYPE_COUNTRY_CODE: return EAV_TLD_COUNTRY_CODE;
    case TLD_TYPE_GENERIC: return EAV_TLD_GENERIC; case TLD_TYPE_GENERIC_RESTRICTED: return EAV_TLD_GENERIC_RESTRICTED;
    case TLD_TYPE_INFRASTRUCTURE: return EAV_TLD_INFRASTRUCTURE; case TLD_TYPE_SPONSORED: return EAV_TLD_SPONSORED;
    case TLD_TYPE_TEST: return EAV_TLD_TEST; case TLD_TYPE_SPECIAL: return EAV_TLD_SPECIAL; case TLD_TYPE_RETIRED: return EAV_TLD_RETIRED; }
    return 0;
}

/* composition on stand-alone copies; returns the domain rc (when everything before is valid) */
static int comp_domain(int mode, int tld, const unsigned char *d, size_t n) {
    char c[MC_CASEMAX + 1]; memcpy(c, d, n); c[n] = 0;
    if (c[0] != '[') {
        if (mode == 3) { int ir = 0; return is_utf8_domain(&ir, c, c + n, tld); }
        int rc = is_ascii_domain(c, c + n);
        if (rc != 0 || !tld) return rc;
        if (is_special_domain(c, c + n)) return TLD_TYPE_SPECIAL;
        char *dot = strrchr(c, '.');
        if (!dot) return -EEAV_DOMAIN_NOT_FQDN;
        return is_tld(dot + 1, c + n);
    }
    if (n <= 8) return -EEAV_IPADDR_INVALID;
    if (!memchr(c, ']', n)) return -EEAV_IPADDR_BRACKET_UNPAIR;
    if (c[n - 1] != ']') return -EEAV_IPADDR_INVALID;
    char *in = c + 1; size_t il = n - 2; in[il] = 0;
    int ok;
    if (il > 5 && strncasecmp(in, "IPv6:", 5) == 0) ok = is_ipv6(in + 5, in + il);
    else if (memchr(in, ':', il)) ok = is_ipv6(in, in + il);
    else ok = is_ipv4(in, in + il);
    return ok ? 0 : -EEAV_IPADDR_INVALID;
}

static void check_email(const char *sub, const unsigned char *s, size_t n) {
    if (n + 2 > MC_CASEMAX) return;
    char buf[MC_CASEMAX + 2]; memcpy(buf, s, n); buf[n] = 0;
    for (size_t i = 0; i < n; i++) if (!s[i]) return;
    /* split */
    long at = -1; for (long i = (long)n - 1; i >= 0; i--) if (s[i] == '@') { at = i; break; }
    const unsigned char *L = s, *D = at >= 0 ? s + at + 1 : NULL; size_t ln = at >= 0 ? (size_t)at : 0, dn = at >= 0 ? n - (size_t)at - 1 : 0;
    for (int m = 0; m < 4; m++) {
        /* (i) reference verdict, tld off */
        int refv, fam = RF_NONE;
        if (n == 0 || at < 0 || ln == 0 || dn == 0 || ln > 64) refv = R_REJ;
        else {
            int lv = ref_local(L, ln, m, REF_OPTS), dv;
            if (D[0] == '[' || m != 3) dv = ref_domainpart(D, dn, REF_OPTS, &fam);
            else { unsigned long c0 = ref_idn_calls; dv = ref_expect_6531(D, dn, ref_domain(D, dn, REF_OPTS), REF_OPTS); MC_ADD(C_IDN, ref_idn_calls - c0); }
            refv = (lv == R_REJ || dv == R_REJ) ? R_REJ : (lv == R_ACC && dv == R_ACC) ? R_ACC : R_ANY;
        }
        if (m == 0) MC_ADD(refv == R_ACC ? C_ACC : refv == R_REJ ? C_REJ : C_ANY, 1);
        for (int tld = 0; tld < 2; tld++) {
            char cfg[48]; snprintf(cfg, sizeof cfg, "mode=%s tld=%d", MN[m], tld);
            mc_current(sub, cfg, s, n);
            eav_result_t *r = EMAIL[m](buf, n, tld);
            int rc = r->rc, f4 = r->is_ipv4, f6 = r->is_ipv6, fd = r->is_domain;
            eav_result_free(r);
            MC_ADD(C_EVAL, 1);
            if (rc == 0 && !tld) MC_ADD(C_IMPLACC, 1);
            /* (i) */
            if (!tld && refv != R_ANY && (rc == 0) != (refv == R_ACC)) {
                char w[80]; snprintf(w, sizeof w, "ref:%s:%s:rc=%d", MN[m], refv == R_ACC ? "rejects-valid" : "accepts-invalid", rc);
                mc_violation(sub, w, "", cfg, s, n, "is_%s_email: reference %s, library rc=%d", MN[m], refv == R_ACC ? "ACCEPT" : "REJECT", rc);
            }
            /* (ii) composition */
            unsigned long long adm = 0; int exact = 0, have_exact = 0;
            if (n == 0) adm |= 1ull << EEAV_EMAIL_EMPTY;
            else if (at < 0) adm |= 1ull << EEAV_DOMAIN_EMPTY;
            else {
                if (dn == 0) adm |= 1ull << EEAV_DOMAIN_EMPTY;
                if (ln > 64) adm |= 1ull << EEAV_LPART_TOO_LONG;
                char lc[MC_CASEMAX + 1]; memcpy(lc, L, ln); lc[ln] = 0;
                int lrc = LOCAL[m](lc, lc + ln);
                if (lrc != 0) adm |= 1ull << (-lrc);
                if (dn) {
                    int drc = comp_domain(m, tld, D, dn);
                    if (drc < 0) { if (!adm) { exact = drc; have_exact = 1; } adm |= 1ull << (-drc); }
                    else if (!adm) { exact = drc; have_exact = 1; MC_ADD(C_COMPVALID, 1); }
                }
                MC_ADD(C_EVAL, 2);
            }
            if (have_exact && exact >= 0) {
                if (rc != exact)
                    mc_violation(sub, "compose:valid-parts-different-rc", "", cfg, s, n, "parts are valid and the domain validator gives %d, but is_%s_email rc=%d", exact, MN[m], rc);
            } else if (rc >= 0) {
                char w[80]; snprintf(w, sizeof w, "compose:%s:accepts-although-part-fails", MN[m]);
                mc_violation(sub, w, "", cfg, s, n, "a part validator fails (admissible codes mask 0x%llx) but is_%s_email rc=%d", adm, MN[m], rc);
            } else if (!((adm >> (-rc)) & 1)) {
                char w[80]; snprintf(w, sizeof w, "compose:%s:code-%d-not-admissible", MN[m], -rc);
                mc_violation(sub, w, "", cfg, s, n, "is_%s_email rc=%d but the part validators give codes mask 0x%llx", MN[m], rc, adm);
            }
            /* (iii) object API == direct call */
            eav_t *e = &OBJ[m][tld];
            int ret = eav_is_email(e, buf, n);
            MC_ADD(C_EVAL, 1);
            int want_ret = rc == 0 ? 1 : rc < 0 ? 0 : ((e->allow_tld & tld_bit(rc)) ? 1 : 0);
            int want_err = rc == 0 ? EEAV_NO_ERROR : rc < 0 ? -rc : (want_ret ? EEAV_NO_ERROR : (EEAV_TLD_NOT_ASSIGNED + rc - TLD_TYPE_NOT_ASSIGNED));
            if (e->result->rc != rc || e->result->is_ipv4 != f4 || e->result->is_ipv6 != f6 || e->result->is_domain != fd || ret != want_ret || e->errcode != want_err)
                mc_violation(sub, "eav_is_email-differs-from-direct-call", "", cfg, s, n, "eav_is_email ret=%d errcode=%d result.rc=%d; is_%s_email rc=%d (want ret=%d errcode=%d)",
                             ret, e->errcode, e->result->rc, MN[m], rc, want_ret, want_err);
            if (!tld) {
                int rb = eav_is_email(&OBJ_B[m], buf, n), eb = OBJ_B[m].errcode;
                int rcc = eav_is_email(&OBJ_C[m], buf, n), ec = OBJ_C[m].errcode;
                MC_ADD(C_EVAL, 2);
                if (rb != ret || eb != e->errcode)
                    mc_violation(sub, "mode-binding:after-earlier-setup", "", cfg, s, n, "object set up as another mode first, then mode %s: ret=%d errcode=%d, fresh object ret=%d errcode=%d", MN[m], rb, eb, ret, e->errcode);
                int rd = eav_is_email(&OBJ_D[m], buf, n), ed = OBJ_D[m].errcode, re = eav_is_email(&OBJ_E[m], buf, n), ee = OBJ_E[m].errcode;
                MC_ADD(C_EVAL, 2);
                if (rd != ret || ed != e->errcode)
                    mc_violation(sub, "mode-binding:same-mode-confirmed-repeatedly", "", cfg, s, n, "eav_setup called three times with mode %s: ret=%d errcode=%d, single setup ret=%d errcode=%d", MN[m], rd, ed, ret, e->errcode);
                if (re != ret || ee != e->errcode)
                    mc_violation(sub, "mode-binding:mode-other-mode", "", cfg, s, n, "setup %s, another mode, %s again: ret=%d errcode=%d, single setup ret=%d errcode=%d", MN[m], MN[m], re, ee, ret, e->errcode);
                if (rcc != ret || ec != e->errcode)
                    mc_violation(sub, "mode-binding:rfc-written-without-setup", "", cfg, s, n, "eav->rfc overwritten without eav_setup changed the outcome: ret=%d errcode=%d vs ret=%d errcode=%d", rcc, ec, ret, e->errcode);
            }
        }
    }
}

/* ---------- L1 ---------- */
static const mc_tok_t SIGC[] = { MC_TOK("a"), MC_TOK("."), MC_TOK("@"), MC_TOK("["), MC_TOK("]"), MC_TOK("\""), MC_TOK("\\"),
                                 MC_TOK(" "), MC_TOK("1"), MC_TOK(":"), MC_TOK("-"), MC_TOK("\xd0\x96") };
#define NSIGC 12
static void l1_cb(const unsigned char *s, size_t n, int nt, void *a) {
    (void)nt; (void)a; check_email("L1", s, n); MC_ADD(C_L1, 1);
    /* non-trivial: contains '@' with something on both sides */
    const unsigned char *p = memchr(s, '@', n); if (p && p != s && p != s + n - 1) MC_ADD(C_NONTRIV, 1);
}
static mc_enum_t L1E;
static void l1_shard(long s, void *a) { (void)a; mc_enum_t e = L1E; mc_enum_shard(&e, s); }

/* ---------- L2: every byte at structural positions ---------- */
static const char *const TPL[] = { "{b}x@y.zz", "x{b}@y.zz", "x{b}y@y.zz", "x@{b}y.zz", "x@y{b}.zz", "x@y.{b}zz", "x@y.zz{b}", "x@[{b}1.2.3.4]", "x@[1.2.3.4{b}]",
    "x@[1.2.3.4]{b}", "x@{b}[1.2.3.4]", "\"x{b}\"@y.zz", "\"x\"{b}@y.zz", "x.{b}@y.zz", "x@y.zz@{b}", "{b}@y.zz", "x@{b}", "\"x\\{b}\"@y.zz", "x{b}@[IPv6:::1]" };
#define NTPL ((int)(sizeof TPL / sizeof TPL[0]))
static void l2_shard(long shard, void *arg) {
    (void)arg; const char *t = TPL[shard]; const char *h = strstr(t, "{b}");
    size_t pre = (size_t)(h - t), post = strlen(h + 3);
    unsigned char s[96];
    memcpy(s, t, pre); memcpy(s + pre, h + 3, post);
    check_email("L2", s, pre + post); MC_ADD(C_L2, 1);
    for (int b = 1; b < 256; b++) {
        memcpy(s, t, pre); s[pre] = (unsigned char)b; memcpy(s + pre + 1, h + 3, post);
        check_email("L2", s, pre + 1 + post); MC_ADD(C_L2, 1);
        for (int b2 = 1; b2 < 256; b2++) {
            s[pre + 1] = (unsigned char)b2; memcpy(s + pre + 2, h + 3, post);
            check_email("L2pair", s, pre + 2 + post); MC_ADD(C_L2, 1);
        }
    }
}

/* every byte value SUBSTITUTED at every position of 12 complete addresses (the templates above insert; a keyword, tag, separator or quote replaced
 * by a look-alike byte - a control character that folds to the same letter, a byte with the high bit set - is only reached by substitution) */
static const char *const SUBST[] = { "x@[IPv6:::1]", "x@[ipv6:1:2:3:4:5:6:7:8]", "x@[IPv6:1:2:3:4:5:6:1.2.3.4]", "x@[1.2.3.4]", "x@[::1]", "\"a b\"@c.de", "a.b@c-d.ef", "x@xn--p1ai.com",
    "x@example.com", "x@a.test", "\"a\\\"b\".c@d.org", "x@localhost" };
#define NSUBST ((int)(sizeof SUBST / sizeof SUBST[0]))
static void l2subst_shard(long shard, void *arg) {
    (void)arg; const char *t = SUBST[shard]; size_t n = strlen(t); unsigned char s[96];
    for (size_t p = 0; p < n; p++) for (int b = 1; b < 256; b++) {
        if (b == (unsigned char)t[p]) continue;
        memcpy(s, t, n); s[p] = (unsigned char)b; check_email("L2subst", s, n); MC_ADD(C_L2, 1);
    }
}

/* ---------- L3: counters and placements ---------- */
static size_t lp_shape(unsigned char *o, int shape, int len) {
    /* exactly len bytes of local part */
    switch (shape) {
    case 0: memset(o, 'a', (size_t)len); break;                                   /* plain atom */
    case 1: for (int i = 0; i < len; i++) o[i] = (i % 2 && i != len - 1) ? '.' : 'a'; break;  /* a.a.a */
    case 2: if (len < 2) { memset(o, 'a', (size_t)len); break; } o[0] = '"'; memset(o + 1, 'b', (size_t)len - 2); o[len - 1] = '"'; break;
    case 3: if (len < 3) { memset(o, 'a', (size_t)len); break; } o[0] = '"'; memset(o + 1, 'b', (size_t)len - 2); o[len / 2] = '@'; o[len - 1] = '"'; break;
    case 4: for (int i = 0; i < len; i++) o[i] = (unsigned char)((i % 2) ? 0x96 : 0xd0); if (len % 2) o[len - 1] = 'a'; break;   /* Cyrillic, mode 6531 */
    }
    return (size_t)len;
}
static void l3_lpart(long shard, void *arg) {
    (void)arg; int len = (int)shard;       /* 0..70 */
    static const char *const DOM[] = { "ok.com", "[1.2.3.4]", "[IPv6:::1]", "a", "localhost" };
    unsigned char t[200];
    for (int sh = 0; sh < 5; sh++) for (int d = 0; d < 5; d++) {
        size_t l = lp_shape(t, sh, len); t[l++] = '@'; size_t dl = strlen(DOM[d]); memcpy(t + l, DOM[d], dl); l += dl;
        check_email("L3lpart", t, l); MC_ADD(C_L3, 1);
    }
}
static void l3_domlen(long shard, void *arg) {
    (void)arg; int total = (int)shard + 1;     /* 1..262 */
    unsigned char t[400]; size_t l;
    for (int lab = 1; lab <= 64; lab += (lab < 2 ? 1 : lab < 60 ? 31 : 1)) for (int root = 0; root < 2; root++) {
        l = 0; t[l++] = 'x'; t[l++] = '@';
        int left = total;
        while (left > 0) { int take = left > lab ? lab : left; memset(t + l, 'a', (size_t)take); l += (size_t)take; left -= take; if (left > 1) { t[l++] = '.'; left--; } }
        if (root) t[l++] = '.';
        check_email("L3domlen", t, l); MC_ADD(C_L3, 1);
    }
}
/* both halves near their limits at once: local part of 1..70 octets (atom, quoted, dotted) x domain of 240..262 characters (3 label layouts,
 * with and without root dot); a limit on the WHOLE address, or one half's limit applied to the other, shows only in this product */
static void l3_product(long shard, void *arg) {
    (void)arg; int ln = (int)shard + 1;
    unsigned char t[420]; size_t l;
    for (int lsh = 0; lsh < 3; lsh++) for (int total = 240; total <= 262; total++) for (int lay = 0; lay < 3; lay++) for (int root = 0; root < 2; root++) {
        l = 0;
        if (lsh == 0) { memset(t, 'a', (size_t)ln); l = (size_t)ln; }
        else if (lsh == 1) { if (ln < 3) continue; t[l++] = '"'; memset(t + l, 'b', (size_t)ln - 2); l += (size_t)ln - 2; t[l++] = '"'; }
        else { if (ln < 3) continue; for (int i = 0; i < ln; i++) t[l++] = (i % 2 && i != ln - 1) ? '.' : 'c'; }
        t[l++] = '@';
        int lab = lay == 0 ? 63 : lay == 1 ? 1 : 31, left = total;
        while (left > 0) { int take = left > lab ? lab : left; if (left - take == 1) take = left; if (take > 63 && lab == 63) { take = 62; } memset(t + l, 'a', (size_t)take); l += (size_t)take; left -= take; if (left > 0) { t[l++] = '.'; left--; } }
        if (root) t[l++] = '.';
        check_email("L3product", t, l); MC_ADD(C_L3, 1);
    }
}
/* folding white space inside a long quoted local part: the 64-octet limit counts the octets as they are, folded or not (shard = length 58..75) */
static void l3_folded(long shard, void *arg) {
    (void)arg; int ln = 58 + (int)shard; unsigned char t[128];
    for (int nf = 1; nf <= 3; nf++) for (int pos = 1; pos + 3 * nf < ln - 1; pos += 5) for (int ws = 0; ws < 2; ws++) {
        size_t l = 0; t[l++] = '"';
        for (int i = 1; i < ln - 1; ) { int k = (i - pos) / 3; if (i >= pos && (i - pos) % 3 == 0 && k < nf && i + 3 <= ln - 1) { t[l++] = '\r'; t[l++] = '\n'; t[l++] = ws ? '\t' : ' '; i += 3; } else { t[l++] = 'q'; i++; } }
        t[l++] = '"'; memcpy(t + l, "@ok.com", 7); l += 7;
        check_email("L3folded", t, l); MC_ADD(C_L3, 1);
    }
}
static void l3_at(long shard, void *arg) {
    (void)arg; (void)shard;
    static const char *const SK[] = { "ab.cd.efgh", "\"ab\".cd.ef", "a[1.2.3.4]", "ab.[::1].c" };
    unsigned char t[64];
    for (int k = 0; k < 4; k++) {
        const char *sk = SK[k]; int L = (int)strlen(sk);
        /* 0..4 '@' inserted at positions p1<=p2<=p3<=p4 */
        for (int na = 0; na <= 4; na++) {
            int p[4] = {0, 0, 0, 0};
            for (;;) {
                size_t l = 0; int q = 0;
                for (int i = 0; i <= L; i++) { while (q < na && p[q] == i) { t[l++] = '@'; q++; } if (i < L) t[l++] = (unsigned char)sk[i]; }
                check_email("L3at", t, l); MC_ADD(C_L3, 1);
                int j = na - 1; while (j >= 0 && p[j] == L) j--;
                if (j < 0) break;
                p[j]++; for (int z = j + 1; z < na; z++) p[z] = p[j];
            }
        }
    }
    /* every placement of one '[' ... ']' pair in a skeleton */
    static const char *const SB[] = { "x@1.2.3.4", "x@IPv6:::1", "x@a.bc", "\"x\"@1.2.3.4" };
    for (int k = 0; k < 4; k++) {
        const char *sk = SB[k]; int L = (int)strlen(sk);
        for (int i = 0; i <= L; i++) for (int j = i; j <= L; j++) {
            size_t l = 0;
            for (int z = 0; z <= L; z++) { if (z == i) t[l++] = '['; if (z == j) t[l++] = ']'; if (z < L) t[l++] = (unsigned char)sk[z]; }
            check_email("L3bracket", t, l); MC_ADD(C_L3, 1);
        }
    }
}

/* ---------- L4: bracket contents (the composition clause on address literals, incl. zero octets) ---------- */
static const mc_tok_t SIGLIT[] = { MC_TOK("1"), MC_TOK("0"), MC_TOK("a"), MC_TOK(":"), MC_TOK("."), MC_TOK("IPv6:"), MC_TOK("25") };
static void l4_cb(const unsigned char *s, size_t n, int nt, void *a) {
    (void)nt; (void)a; unsigned char t[128]; size_t l = 0;
    memcpy(t, "x@[", 3); l = 3; memcpy(t + l, s, n); l += n; t[l++] = ']';
    check_email("L4literal", t, l); MC_ADD(C_L3, 1);
}
static mc_enum_t L4E;
static void l4_shard(long s, void *a) { (void)a; mc_enum_t e = L4E; mc_enum_shard(&e, s); }
static void l4_quads(long shard, void *arg) {
    (void)arg; (void)shard; char c[128];
    static const char *const O[] = { "0", "00", "1", "10", "255", "256", "" };
    for (int a = 0; a < 7; a++) for (int b = 0; b < 7; b++) for (int cc = 0; cc < 7; cc++) for (int d = 0; d < 7; d++) for (int tag = 0; tag < 3; tag++) {
        int n = snprintf(c, sizeof c, "x@[%s%s.%s.%s.%s]", tag == 0 ? "" : tag == 1 ? "IPv6:::" : "IPv6:1:2:3:4:5:6:", O[a], O[b], O[cc], O[d]);
        check_email("L4quad", (unsigned char *)c, (size_t)n); MC_ADD(C_L3, 1);
    }
}

/* ---------- L5: the long / alternative-spelling corpora (U-label domains beyond 255 bytes, soft-hyphen padding, alternative dots,
 * label-length tails, maximal literals + junk) ---------- */
static int L5PH;
static void l5_emit(const unsigned char *s, size_t n, void *arg) { (void)arg; check_email("L5corpus", s, n); MC_ADD(C_L3, 1); }
static void l5_shard(long shard, void *arg) { (void)arg; corpus_run(L5PH, shard, l5_emit, NULL); }

/* ---------- L6: every local-part shape x every domain shape (an interaction of two features that are each covered alone) ---------- */
static const char *const L6DOM[] = { "ok.com", "a", "a.b.", "example.org", "xn--p1ai", "\xd0\xbf.\xd1\x80\xd1\x84", "a..b", "-a.com", "[192.0.2.1]", "[IPv6:2001:db8::1]", "[::1.2.3.4]", "[IPv6:::ffff:192.0.2.128]",
    "[2001:db8:1:1:1:1:1:1]", "[1.2.3.4", "1.2.3.4]", "[1.2.3.256]", "[IPv6:1:2]", "[0.0.0.0]", "a.museum", "b.zzzzq", "[IPv6:1::2]x", "a@b.com", "localhost", "1.2" };
#define NL6DOM ((int)(sizeof L6DOM / sizeof L6DOM[0]))
static void l6_shard(long shard, void *arg) {
    (void)arg; int b = (int)shard + 1;      /* the byte featured in the local part */
    unsigned char lp[8][16]; size_t ll[8]; int nlp = 0;
    #define LP(...) do { const unsigned char t_[] = { __VA_ARGS__ }; memcpy(lp[nlp], t_, sizeof t_); ll[nlp++] = sizeof t_; } while (0)
    LP('a', (unsigned char)b, 'b'); LP('"', 'a', (unsigned char)b, 'b', '"'); LP('"', 'a', '\\', (unsigned char)b, 'b', '"'); LP((unsigned char)b); LP('a', '.', '"', (unsigned char)b, '"'); LP('"', (unsigned char)b, '"', '.', 'a');
    LP((unsigned char)b, (unsigned char)b); LP('"', (unsigned char)b, (unsigned char)b, '"');
    for (int i = 0; i < nlp; i++) for (int d = 0; d < NL6DOM; d++) {
        unsigned char t[96]; size_t l = ll[i]; memcpy(t, lp[i], l); t[l++] = '@'; size_t dl = strlen(L6DOM[d]); memcpy(t + l, L6DOM[d], dl); l += dl;
        check_email("L6cross", t, l); MC_ADD(C_L3, 1);
    }
}

/* ---------- huge: lengths at which an 8-, 16-, 31- or 32-bit counter wraps ----------
 * Every part-length limit (local part 64, label 63, domain 253) is checked again at lengths k*2^8+d, k*2^16+d (and 2^24+d, 2^31+d, 2^32+d in
 * the thorough tier), d = 0..70 and 250..258: a length kept in a narrower type than size_t passes the limit there and nowhere else.
 * The strings are views into one buffer of 'a's (copy-on-write after fork), so a 4 GiB case costs two dirty pages.
 * Expected verdict by construction: reject with a negative code, in every mode, with and without TLD check, direct call and object API.
 *   kind 0  'a'*L @ok.com           kind 1  x@ 'a'*L .com          kind 2  x@ ('a'*63 .)* to L characters .com
 *   kind 3  x@ (a.)*(L/2) com       kind 4  "'a'*(L-2)" @ok.com */
#include <sys/mman.h>
static unsigned char *HB; static size_t HBCAP; static int C_HUGE;
static size_t HUGE_L[4096]; static int HUGE_N;
static void huge_lengths(void) {
    static const size_t D6[] = { 0, 1, 2, 63, 64, 65 };
    HUGE_N = 0;
    for (int k = 1; k <= 8; k++) for (size_t d = 0; d <= 258; d++) { if (d > 70 && d < 250) continue; HUGE_L[HUGE_N++] = (size_t)k * 256 + d; }
    static const int K16[] = { 1, 2, 3, 4, 16 };
    for (int i = 0; i < 5; i++) for (size_t d = 0; d <= 258; d++) { if (d > 70 && d < 250) continue; HUGE_L[HUGE_N++] = (size_t)K16[i] * 65536 + d; }
    if (mc_thorough) { static const size_t B[] = { (size_t)1 << 24, (size_t)1 << 31, (size_t)1 << 32 };
        for (int i = 0; i < 3; i++) for (int j = 0; j < 6; j++) HUGE_L[HUGE_N++] = B[i] + D6[j]; }
}
static void huge_init(void) {
    huge_lengths();
    size_t maxl = 0; for (int i = 0; i < HUGE_N; i++) if (HUGE_L[i] > maxl) maxl = HUGE_L[i];
    HBCAP = maxl + 8192;
    HB = mmap(NULL, HBCAP, PROT_READ | PROT_WRITE, MAP_PRIVATE | MAP_ANONYMOUS | MAP_NORESERVE, -1, 0);
    if (HB == MAP_FAILED) { perror("mmap"); exit(2); }
    memset(HB, 'a', HBCAP);
}
static void huge_case(int kind, size_t L) {
    if (L + 64 > HBCAP) return;
    if (kind >= 2 && kind <= 3 && L > ((size_t)1 << 22)) return;       /* pattern kinds write the whole string: up to 4 MiB */
    unsigned char *b = HB + 4096; size_t n = 0, dirty = 0;
    const unsigned char *dom = NULL; size_t domn = 0;
    switch (kind) {
    case 0: memcpy(b + L, "@ok.com", 8); n = L + 7; break;
    case 1: b -= 2; memcpy(b, "x@", 2); memcpy(b + 2 + L, ".com", 5); n = L + 6; dom = b + 2; domn = L + 4; break;
    case 2: b -= 2; memcpy(b, "x@", 2); for (size_t i = 63; i < L; i += 64) b[2 + i] = '.'; if (b[2 + L - 1] == '.') b[2 + L - 1] = 'a'; memcpy(b + 2 + L, ".com", 5); n = L + 6; dirty = L; dom = b + 2; domn = L + 4; break;
    case 3: b -= 2; memcpy(b, "x@", 2); for (size_t i = 1; i < L; i += 2) b[2 + i] = '.'; L &= ~(size_t)1; memcpy(b + 2 + L, "com", 4); n = L + 5; dirty = L; dom = b + 2; domn = L + 3; break;
    case 4: b[0] = '"'; b[L - 1] = '"'; memcpy(b + L, "@ok.com", 8); n = L + 7; break;
    }
    char cfg[96];
    for (int m = 0; m < 4; m++) for (int tld = 0; tld < 2; tld++) {
        /* mode 6531 hands a host name to the IDN converter before judging it; the converter's time and memory on a multi-megabyte name
         * (UTF-32 copies, normalisation) are not libeav's: oversized DOMAINS go through mode 6531 up to 1 MiB only */
        if (m == 3 && dom && L > ((size_t)1 << 20)) continue;
        snprintf(cfg, sizeof cfg, "huge=1 kind=%d len=%zu mode=%s tld=%d", kind, L, MN[m], tld);
        mc_current("huge", cfg, (const unsigned char *)"", 0);
        eav_result_t *r = EMAIL[m]((const char *)b, n, tld); int rc = r->rc; eav_result_free(r);
        int ret = eav_is_email(&OBJ[m][tld], (const char *)b, n), err = OBJ[m][tld].errcode;
        MC_ADD(C_EVAL, 2); MC_ADD(C_HUGE, 1);
        if (rc >= 0 || ret != 0 || err == EEAV_NO_ERROR) {
            char w[96]; snprintf(w, sizeof w, "huge:kind-%d:%s:oversized-part-accepted", kind, MN[m]);
            mc_violation("huge", w, "", cfg, (const unsigned char *)"", 0, "kind %d with a part of %zu characters: is_%s_email rc=%d, eav_is_email ret=%d errcode=%d (a part over its limit must be rejected)", kind, L, MN[m], rc, ret, err);
        }
    }
    if (dom) {
        int drc = is_ascii_domain((const char *)dom, (const char *)dom + domn); MC_ADD(C_EVAL, 1);
        snprintf(cfg, sizeof cfg, "huge=1 kind=%d len=%zu", kind, L);
        if (drc >= 0) mc_violation("huge", "huge:is_ascii_domain:oversized-accepted", "", cfg, (const unsigned char *)"", 0, "kind %d, %zu characters: is_ascii_domain returned %d", kind, domn, drc);
    }
    /* put the 'a's back */
    memset(HB + 4096 - 2, 'a', 2 + 16); memset(HB + 4096 + L - 2, 'a', 32); if (dirty) memset(HB + 4096 - 2, 'a', dirty + 16);
}
static void huge_shard(long shard, void *arg) { (void)arg; for (int kind = 0; kind < 5; kind++) huge_case(kind, HUGE_L[shard]); }

static int do_replay(void) {
    mc_replay_t r; if (mc_load_replay(mc_replay, &r)) return 2;
    mc_replay_hit = 0;
    if (mc_cfg_int(r.cfg, "huge", 0)) { mc_thorough = 1; huge_lengths(); size_t L = (size_t)strtoull(strstr(r.cfg, "len=") + 4, NULL, 10); HBCAP = L + 8192;
        HB = mmap(NULL, HBCAP, PROT_READ | PROT_WRITE, MAP_PRIVATE | MAP_ANONYMOUS | MAP_NORESERVE, -1, 0); if (HB == MAP_FAILED) return 2; memset(HB, 'a', HBCAP);
        huge_case((int)mc_cfg_int(r.cfg, "kind", 0), L); }
    else check_email(r.sub, r.in, (size_t)r.len);
    printf("replay %s: %s\n", mc_replay, mc_replay_hit ? "VIOLATION reproduced" : "no violation");
    return mc_replay_hit ? 1 : 0;
}

int main(int argc, char **argv) {
    mc_init(argc, argv, "C01");
    C_L1 = mc_counter("L1_strings"); C_L2 = mc_counter("L2_strings"); C_L3 = mc_counter("L3_strings");
    C_ACC = mc_counter("ref_accept"); C_REJ = mc_counter("ref_reject"); C_ANY = mc_counter("ref_any"); C_IMPLACC = mc_counter("impl_accept_tld_off");
    C_COMPVALID = mc_counter("composition_all_parts_valid"); C_HUGE = mc_counter("huge_length_calls"); C_IDN = mc_counter("harness_idn2_conversions");
    setup_objects();
    if (mc_replay) return do_replay();
    mc_parallel("L2: 19 templates x 255 bytes (+ byte pairs)", NTPL, l2_shard, NULL);
    mc_parallel("L2: every byte substituted at every position of 12 complete addresses", NSUBST, l2subst_shard, NULL);
    mc_parallel("L3: local part length 0..70 x 5 shapes x 5 domains", 71, l3_lpart, NULL);
    mc_parallel("L3: domain length 1..262 x label sizes x root dot", 262, l3_domlen, NULL);
    mc_parallel("L3: local part 1..70 octets (3 shapes) x domain 240..262 characters (3 layouts, root dot): both halves near their limits", 70, l3_product, NULL);
    mc_parallel("L3: quoted local parts of 58..75 octets with 1-3 CRLF-SP / CRLF-HT folds at every fifth position", 18, l3_folded, NULL);
    mc_parallel("L3: 0-4 '@' at every position of 4 skeletons; every '['..']' placement", 1, l3_at, NULL);
    memset(&L4E, 0, sizeof L4E); L4E.A = SIGLIT; L4E.nA = 7; L4E.N = mc_thorough ? 8 : 7; L4E.k = 2; L4E.fn = l4_cb;
    mc_parallel("L4: all bracket contents over {1 0 a : . IPv6: 25}", mc_enum_shards(&L4E), l4_shard, NULL);
    mc_parallel("L4: dotted quads over 7 octet spellings ^4, plain and as IPv6 tail", 1, l4_quads, NULL);
    huge_init();
    { char nmh[160]; snprintf(nmh, sizeof nmh, "huge: 5 oversized-part shapes at %d lengths k*2^8+d, k*2^16+d%s (d = 0..70, 250..258): every limit where a narrow counter wraps", HUGE_N, mc_thorough ? ", 2^24+d, 2^31+d, 2^32+d" : "");
      mc_parallel(nmh, HUGE_N, huge_shard, NULL); }
    munmap(HB, HBCAP);
    mc_parallel("L6: 8 local-part shapes around every byte 0x01-0xFF x 24 domain shapes", 255, l6_shard, NULL);
    if (corpus_load()) return 2;
    { static const int PH[] = { CP_LONGIDN, CP_ALTDOT, CP_LABELLEN, CP_MAXLIT, CP_LPXDOM, CP_WHOLEDOM, CP_DEPTH, CP_EMBED, CP_SHORTLAB, CP_POSN, CP_WRAP, CP_EDIT, CP_LITERAL };
      for (unsigned i = 0; i < sizeof PH / sizeof PH[0]; i++) { L5PH = PH[i]; char nm5[80]; snprintf(nm5, sizeof nm5, "L5: %.60s", corpus_name(L5PH)); mc_parallel(nm5, corpus_shards(L5PH), l5_shard, NULL); } }
    int N = mc_thorough ? 8 : 6;
    memset(&L1E, 0, sizeof L1E); L1E.A = SIGC; L1E.nA = NSIGC; L1E.N = N; L1E.k = 3; L1E.fn = l1_cb;
    char nm[96]; snprintf(nm, sizeof nm, "L1: all strings of <= %d tokens over {a . @ [ ] \" \\ SP 1 : - U+0416}", N);
    mc_parallel(nm, mc_enum_shards(&L1E), l1_shard, NULL);
    return mc_finish();
}
