/* sinks.c - relational / diagnostic oracles evaluated on the shared corpora (drv/corpus.h):
 *   -DSINK=12  C12 cross-mode agreement and inclusion (no model at all)
 *   -DSINK=15  C15 diagnostics are truthful (per-code predicates; message table; decision <-> errcode)
 *   -DSINK=16  C16 result record consistent with decision and form of the domain (also built with -DEAV_EXTRA)
 */
#include "corpus.h"
#include "../ref/ref_idn.h"
#include <eav.h>
#include <eav/auto_tld.h>
#include <idn2.h>

#ifndef SINK
#error "define SINK"
#endif
#ifndef REF_OPTS
#define REF_OPTS 0
#endif

typedef eav_result_t *(*email_fn)(const char *, size_t, bool);
#ifdef HAVE_IDNKIT
static email_fn EMAIL[4] = { is_822_email, is_5321_email, is_5322_email, NULL };   /* the idnkit build's is_6531_email takes a resolver context: object API only */
#else
static email_fn EMAIL[4] = { is_822_email, is_5321_email, is_5322_email, is_6531_email };
#endif
static const char *MN[4] = { "822", "5321", "5322", "6531" };
static const EAV_RFC RFC[4] = { EAV_RFC_822, EAV_RFC_5321, EAV_RFC_5322, EAV_RFC_6531 };
static int C_ADDR, C_PERPHASE[CP_N];
static int CURPH;

typedef struct { int rc, v4, v6, dom, idn; } out_t;
static out_t call(int m, const char *s, size_t n, int tld) {
    eav_result_t *r = EMAIL[m](s, n, tld);
    out_t o = { r->rc, r->is_ipv4, r->is_ipv6, r->is_domain, (int)r->idn_rc };
    eav_result_free(r); MC_ADD(C_EVAL, 1); return o;
}
static const char *g_pred;     /* predecessor address validated right before (pair sweeps), recorded for replay */
static void viol(const char *why, int m, int tld, const unsigned char *s, size_t n, const char *fmt, ...) {
    char msg[200], cfg[96]; va_list ap; va_start(ap, fmt); vsnprintf(msg, sizeof msg, fmt, ap); va_end(ap);
    snprintf(cfg, sizeof cfg, "mode=%s tld=%d%s%s", m >= 0 ? MN[m] : "all", tld, g_pred ? " pred=" : "", g_pred ? g_pred : "");
    mc_violation(n > MC_CASEMAX ? "noreplay-long-input" : corpus_name(CURPH), why, "", cfg, s, n, "%s", msg);
}
static long last_at(const unsigned char *s, size_t n) { for (long i = (long)n - 1; i >= 0; i--) if (s[i] == '@') return i; return -1; }

#if SINK == 12
/* ------------------------------------------------------------------ C12 */
static int C_PUREASCII, C_INCL, C_FIXD;
static void sink(const unsigned char *s, size_t n, void *arg) {
    (void)arg; static char buf[70100]; if (n + 8 > sizeof buf) return;
    for (size_t i = 0; i < n; i++) if (!s[i]) return;
    memcpy(buf, s, n); buf[n] = 0;
    mc_current(corpus_name(CURPH), "", s, n); MC_ADD(C_ADDR, 1); MC_ADD(C_PERPHASE[CURPH], 1);
    long at = last_at(s, n);
    int ascii = 1, plain_l = 1;
    for (size_t i = 0; i < n; i++) if (s[i] >= 0x80) ascii = 0;
    for (long i = 0; i < (at >= 0 ? at : (long)n); i++) if (s[i] == '"' || s[i] == '\\') plain_l = 0;
    out_t o[4][2];
    for (int m = 0; m < 4; m++) for (int t = 0; t < 2; t++) {
        if (g_pred) (void)call(m, g_pred, strlen(g_pred), t);      /* hidden state: same mode, same tld_check, right before */
        o[m][t] = call(m, buf, n, t);
    }
    for (int t = 0; t < 2; t++) {
        if (ascii && plain_l) {
            MC_ADD(C_PUREASCII, 1);
            for (int m = 1; m < 3; m++) if (o[m][t].rc != o[0][t].rc)
                viol("plain-ascii:ascii-modes-disagree", m, t, s, n, "pure-ASCII address, no quote/backslash in the local part: mode 822 rc=%d but mode %s rc=%d", o[0][t].rc, MN[m], o[m][t].rc);
            if (o[3][t].rc != o[0][t].rc && o[3][t].rc != -EEAV_IDN_ERROR)
                viol("plain-ascii:6531-disagrees", 3, t, s, n, "pure-ASCII address, no quote/backslash in the local part: mode 822 rc=%d but mode 6531 rc=%d (not an IDN error)", o[0][t].rc, o[3][t].rc);
        }
        MC_ADD(C_INCL, 1);
        if (o[1][t].rc >= 0 && o[0][t].rc != o[1][t].rc)
            viol("inclusion:5321-accepts-822-differs", 0, t, s, n, "accepted in mode 5321 (rc=%d) but mode 822 rc=%d", o[1][t].rc, o[0][t].rc);
    }
    /* fixed domain part: the three ASCII modes give the same domain verdict, class and flags */
    if (at >= 0 && (size_t)at + 1 < n) {
        size_t dn = n - (size_t)at - 1; buf[0] = 'x'; buf[1] = '@'; memmove(buf + 2, s + at + 1, dn); buf[dn + 2] = 0;
        MC_ADD(C_FIXD, 1);
        for (int t = 0; t < 2; t++) {
            out_t a = call(0, buf, dn + 2, t);
            for (int m = 1; m < 3; m++) { out_t b = call(m, buf, dn + 2, t);
                if (a.rc != b.rc || a.v4 != b.v4 || a.v6 != b.v6 || a.dom != b.dom)
                    viol("fixed-domain:ascii-modes-disagree", m, t, (unsigned char *)buf, dn + 2, "x@D: mode 822 rc=%d flags %d%d%d, mode %s rc=%d flags %d%d%d", a.rc, a.v4, a.v6, a.dom, MN[m], b.rc, b.v4, b.v6, b.dom); }
        }
    }
    if (ascii && plain_l && at > 0) MC_ADD(C_NONTRIV, 1);
}
static void sink_counters(void) { C_PUREASCII = mc_counter("plain_ascii_addresses_x_tld"); C_INCL = mc_counter("inclusion_checks"); C_FIXD = mc_counter("fixed_domain_checks"); }
/* hidden state: every ordered pair of the 1296 addresses x@b.XY - the relations must hold for the second one right after the first */
static void pair_phase(long shard, void *arg) {
    (void)arg; static const char AL[] = "abcdefghijklmnopqrstuvwxyz0123456789"; char p[16], d[16];
    int pn = snprintf(p, sizeof p, "x@b.%c%c", AL[shard / 36], AL[shard % 36]);
    for (int a = 0; a < 36; a++) for (int b = 0; b < 36; b++) {
        int dn = snprintf(d, sizeof d, "x@b.%c%c", AL[a], AL[b]);
        (void)pn; g_pred = p; sink((unsigned char *)d, (size_t)dn, NULL); g_pred = NULL;
    }
}
#define HAVE_PAIRS 1
#define PROPNAME "C12"
#endif

#if SINK == 16
/* ------------------------------------------------------------------ C16 */
static int C_ACCEPTED, C_INVALID, C_EXTRA;
static eav_t OBJ16[4][2];
static void sink(const unsigned char *s, size_t n, void *arg) {
    (void)arg; static char buf[70100]; if (n + 8 > sizeof buf) return;
    for (size_t i = 0; i < n; i++) if (!s[i]) return;
    memcpy(buf, s, n); buf[n] = 0;
    mc_current(corpus_name(CURPH), "", s, n); MC_ADD(C_ADDR, 1); MC_ADD(C_PERPHASE[CURPH], 1);
    long at = last_at(s, n);
    const unsigned char *L = s, *D = at >= 0 ? s + at + 1 : NULL; size_t ln = at >= 0 ? (size_t)at : 0, dn = at >= 0 ? n - (size_t)at - 1 : 0;
    for (int m = 0; m < 4; m++) {
        /* syntactic verdict of the halves (reference, three-valued) */
        int lv = R_REJ, dv = R_REJ, fam = RF_NONE;
        if (at >= 0 && ln >= 1 && ln <= 64) lv = ref_local(L, ln, m, REF_OPTS);
        if (at >= 0 && dn >= 1) {
            if (D[0] == '[' || m != 3) dv = ref_domainpart(D, dn, REF_OPTS, &fam);
            else { dv = n > 3900 ? R_ANY : ref_expect_6531(D, dn, ref_domain(D, dn, REF_OPTS), REF_OPTS); if (dv == R_ACC) fam = RF_HOST; }
        }
        /* "... the TLD class when TLD checking classified the domain": the class is the one the shipped data gives the name the rules are applied to - the
         * domain itself in the ASCII modes, the independently converted name in mode 6531 (reserved names first, then the row of the last label) */
        int expcls = 0;
        if (lv == R_ACC && dv == R_ACC && dn && D[0] != '[' && dn < 3900) {
            char nm[4000]; size_t nl = dn; memcpy(nm, D, dn); nm[dn] = 0;
            if (m == 3) { int hi = 0; for (size_t i = 0; i < dn; i++) if (D[i] >= 0x80) hi = 1;
                if (hi) { char *a = NULL; if (idn2_to_ascii_8z(nm, &a, IDN2_NONTRANSITIONAL) == IDN2_OK && a && strlen(a) < sizeof nm) { nl = strlen(a); memcpy(nm, a, nl + 1); } else nl = 0; if (a) free(a); } }
            if (nl && nm[nl - 1] != '.' && ref_domain((const unsigned char *)nm, nl, REF_OPTS) == R_ACC) {
                if (ref_special(nm, nl)) expcls = TLD_TYPE_SPECIAL;
                else { size_t i = nl; while (i > 0 && nm[i - 1] != '.') i--; if (i > 0) { int c = rt_lookup(&RT_PUNY, nm + i, nl - i); expcls = c ? c : -EEAV_TLD_INVALID; } else expcls = -EEAV_DOMAIN_NOT_FQDN; }
            }
        }
        for (int t = 0; t < 2; t++) for (int via = 0; via < 2; via++) {
            /* via 0: the callback's own record; via 1: eav_t.result of a long-lived object after eav_is_email (what a caller of the
             * object API sees - the record must belong to THIS call, whatever was validated before) */
            eav_result_t *r;
            if (via == 0 && !EMAIL[m]) continue;
            if (via == 0) r = EMAIL[m](buf, n, t);
            else { eav_t *e = &OBJ16[m][t]; int ret = eav_is_email(e, buf, n); r = e->result;
                   if (!r) { viol("object:no-result-record", m, t, s, n, "eav_is_email returned %d and left eav_t.result NULL", ret); continue; }
                   if ((ret == 1) != (r->rc == 0 || (r->rc > 0 && (e->allow_tld & (1 << (r->rc + 1))))))
                       viol("object:return-value-contradicts-result-record", m, t, s, n, "eav_is_email returned %d (errcode %d) but eav_t.result says rc=%d", ret, e->errcode, r->rc);
                   if (ret == 0 && r->rc < 0 && e->errcode != -r->rc) viol("object:errcode-contradicts-result-record", m, t, s, n, "errcode %d but eav_t.result->rc=%d (stale record?)", e->errcode, r->rc); }
            MC_ADD(C_EVAL, 1);
            int rc = r->rc, nf = r->is_ipv4 + r->is_ipv6 + r->is_domain;
            if (t && expcls && rc != expcls && !(m == 3 && rc == -EEAV_IDN_ERROR))
                viol(expcls > 0 ? "rc:not-the-class-of-the-domain" : "rc:unclassifiable-domain-got-another-code", m, t, s, n, "TLD checking on: the shipped data give this domain %s %d, result record says rc=%d", expcls > 0 ? "class" : "code", expcls, rc);
            if (nf > 1) viol("more-than-one-flag", m, t, s, n, "flags v4=%d v6=%d dom=%d", r->is_ipv4, r->is_ipv6, r->is_domain);
            if (rc >= 0) {
                MC_ADD(C_ACCEPTED, 1);
                if (nf != 1) viol("accepted-without-exactly-one-flag", m, t, s, n, "rc=%d but flags v4=%d v6=%d dom=%d", rc, r->is_ipv4, r->is_ipv6, r->is_domain);
                int literal = dn && D[0] == '[';
                if (literal && r->is_domain) viol("flag-does-not-match-form", m, t, s, n, "address literal reported as host name");
                if (!literal && (r->is_ipv4 || r->is_ipv6)) viol("flag-does-not-match-form", m, t, s, n, "host name reported as address literal");
                if (literal && fam == RF_V4 && !r->is_ipv4) viol("flag-does-not-match-form", m, t, s, n, "IPv4 literal not reported as is_ipv4");
                if (literal && fam == RF_V6 && !r->is_ipv6) viol("flag-does-not-match-form", m, t, s, n, "IPv6 literal not reported as is_ipv6");
                /* result code */
                if (!t && rc != 0) viol("rc:nonzero-without-tld-check", m, t, s, n, "accepted without TLD checking but rc=%d", rc);
                if (t && rc > 0 && (literal || rc >= TLD_TYPE_MAX)) viol("rc:class-for-literal-or-out-of-range", m, t, s, n, "rc=%d", rc);
                if (t && rc == 0 && !literal) viol("rc:host-name-not-classified", m, t, s, n, "TLD checking on, host name accepted with rc 0 (no class)");
                /* "either half syntactically invalid => no flag" holds whatever the decision was */
                if ((lv == R_REJ || dv == R_REJ) && nf != 0) { MC_ADD(C_INVALID, 1);
                    viol("flag-set-on-syntactically-invalid-address(accepted)", m, t, s, n, "local part %s, domain %s (reference), yet rc=%d and flags v4=%d v6=%d dom=%d", lv == R_REJ ? "invalid" : "ok", dv == R_REJ ? "invalid" : "ok", rc, r->is_ipv4, r->is_ipv6, r->is_domain); }
            } else {
                if (rc < -EEAV_MAX + 1 || rc == -EEAV_NO_ERROR) viol("rc:negative-out-of-range", m, t, s, n, "rc=%d", rc);
                if ((lv == R_REJ || dv == R_REJ) && nf != 0) { MC_ADD(C_INVALID, 1);
                    viol("flag-set-on-syntactically-invalid-address", m, t, s, n, "local part %s, domain %s, rc=%d, flags v4=%d v6=%d dom=%d", lv == R_REJ ? "invalid" : "ok", dv == R_REJ ? "invalid" : "ok", rc, r->is_ipv4, r->is_ipv6, r->is_domain); }
                else if (lv == R_REJ || dv == R_REJ) MC_ADD(C_INVALID, 1);
            }
#ifdef EAV_EXTRA
            MC_ADD(C_EXTRA, 1);
            if (rc >= 0) {
                int literal = dn && D[0] == '[';
                const unsigned char *ed = literal ? D + 1 : D; size_t edn = literal ? dn - 2 : dn;
                if (!r->lpart || !r->domain) viol("extra:null-on-acceptance", m, t, s, n, "accepted but lpart=%p domain=%p", (void *)r->lpart, (void *)r->domain);
                else {
                    if (strlen(r->lpart) != ln || memcmp(r->lpart, L, ln)) viol("extra:lpart-differs", m, t, s, n, "lpart='%.60s'", r->lpart);
                    if (strlen(r->domain) != edn || memcmp(r->domain, ed, edn)) viol("extra:domain-differs", m, t, s, n, "domain='%.60s'", r->domain);
                }
            } else if ((lv == R_REJ || dv == R_REJ) && (r->lpart || r->domain))
                viol("extra:non-null-on-syntactically-invalid", m, t, s, n, "rc=%d lpart=%s domain=%s", rc, r->lpart ? r->lpart : "NULL", r->domain ? r->domain : "NULL");
#endif
            /* address literals: the record must not depend on what follows the address in the caller's buffer (a port, the rest of a
             * header line); the length argument delimits the address.  (Only literals and only tails without '@' or ']': for host
             * names the library is documented to need length == strlen.) */
            if (via == 0 && dn && D[0] == '[' && n + 8 < sizeof buf) {
                memcpy(buf + n, ":25 x:y", 8);
                eav_result_t *r2 = EMAIL[m](buf, n, t); MC_ADD(C_EVAL, 1);
                if (r2->rc != r->rc || r2->is_ipv4 != r->is_ipv4 || r2->is_ipv6 != r->is_ipv6 || r2->is_domain != r->is_domain)
                    viol("literal:record-depends-on-bytes-after-the-address", m, t, s, n, "with ':25 x:y' after the address (same length argument): rc=%d flags %d%d%d, alone: rc=%d flags %d%d%d",
                         r2->rc, r2->is_ipv4, r2->is_ipv6, r2->is_domain, r->rc, r->is_ipv4, r->is_ipv6, r->is_domain);
                eav_result_free(r2); buf[n] = 0;
            }
            if (via == 0) eav_result_free(r);
        }
    }
    if (at > 0 && dn) MC_ADD(C_NONTRIV, 1);
}
static void sink_counters(void) {
    for (int m = 0; m < 4; m++) for (int t = 0; t < 2; t++) { eav_t *e = &OBJ16[m][t]; memset(e, 0, sizeof *e); eav_init(e); e->rfc = RFC[m]; e->tld_check = t; if (eav_setup(e)) exit(2); }
    C_ACCEPTED = mc_counter("accepted_results_checked"); C_INVALID = mc_counter("syntactically_invalid_results_checked"); C_EXTRA = mc_counter("eav_extra_records_checked"); }
#define PROPNAME "C16"
#endif

#if SINK == 15
/* ------------------------------------------------------------------ C15 */
static const char *const MSG[EEAV_MAX] = {
    "no error", "invalid RFC specified", "idn internal error", "empty email address", "local-part is empty", "local-part is too long",
    "local-part has non-ascii characters", "local-part has special characters", "local-part has control characters", "local-part has misplaced double quote",
    "local-part has open double quote", "local-part has too many dots", "local-part has misplaced dot", "local-part has unquoted characters",
    "local-part has invalid folding", "local-part has invalid UTF-8 data", "domain is empty", "domain label is too long", "domain has misplaced hyphen",
    "domain has misplaced delimiter", "domain has invalid characters", "domain is too long", "domain is all-numeric", "domain is not FQDN", "ip-addr is incorrect",
    "ip-addr has unpaired bracket", "invalid TLD", "not assigned TLD", "country-code TLD", "generic TLD", "generic-restricted TLD", "infrastructure TLD",
    "sponsored TLD", "test TLD", "special TLD", "retired TLD" };
static eav_t OBJ[4][3];     /* [mode][0: tld off, 1: tld on default mask, 2: tld on mask 0] */
static int C_CODE[EEAV_MAX];
static int has_byte(const unsigned char *p, size_t n, int lo, int hi) { for (size_t i = 0; i < n; i++) if (p[i] >= lo && p[i] <= hi) return 1; return 0; }
static int has_sub(const unsigned char *p, size_t n, const char *w) { size_t wl = strlen(w); for (size_t i = 0; i + wl <= n; i++) if (!memcmp(p + i, w, wl)) return 1; return 0; }
static int is_spec_or_sp(int c) { return c == ' ' || (c && strchr("()<>@,;:\\[]", c) != NULL); }

static void sink(const unsigned char *s, size_t n, void *arg) {
    (void)arg; static char buf[70100]; if (n + 8 > sizeof buf) return;
    for (size_t i = 0; i < n; i++) if (!s[i]) return;
    memcpy(buf, s, n); buf[n] = 0;
    mc_current(corpus_name(CURPH), "", s, n); MC_ADD(C_ADDR, 1); MC_ADD(C_PERPHASE[CURPH], 1);
    long at = last_at(s, n);
    const unsigned char *L = s, *D = at >= 0 ? s + at + 1 : NULL; size_t ln = at >= 0 ? (size_t)at : 0, dn = at >= 0 ? n - (size_t)at - 1 : 0;
    for (int m = 0; m < 4; m++) for (int k = 0; k < 3; k++) {
        eav_t *e = &OBJ[m][k];
        int ret = eav_is_email(e, buf, n), err = e->errcode; const char *msg = eav_errstr(e);
        MC_ADD(C_EVAL, 1);
        int t = k > 0;
        if ((ret == 1) != (err == EEAV_NO_ERROR)) viol("return-value-vs-errcode", m, t, s, n, "eav_is_email returned %d with errcode %d", ret, err);
        if (err < 0 || err >= EEAV_MAX) { viol("errcode-out-of-range", m, t, s, n, "errcode %d", err); continue; }
        MC_ADD(C_CODE[err], 1);
        if (ret == 0) {
            if (!msg || !msg[0]) viol("empty-message-after-rejection", m, t, s, n, "errcode %d, eav_errstr %s", err, msg ? "empty" : "NULL");
            else if (err == EEAV_IDN_ERROR) { const char *want = idn2_strerror(e->result->idn_rc); if (strcmp(msg, want)) viol("idn-message-is-not-the-library's", m, t, s, n, "idn_rc=%d message '%s', idn2_strerror says '%s'", e->result->idn_rc, msg, want); }
            else if (strcmp(msg, MSG[err])) viol("message-does-not-match-code", m, t, s, n, "errcode %d message '%s', documented '%s'", err, msg, MSG[err]);
        }
        if (ret == 1) continue;
        /* truth of the named condition */
        int lv = (at >= 0 && ln >= 1) ? ref_local(L, ln, m, REF_OPTS) : R_REJ;
        int whyset = 0, fam = RF_NONE, dv = R_REJ;
        static unsigned char conv[70100]; const unsigned char *DD = D; size_t ddn = dn; int conv_ok = 1;
        if (dn && D[0] != '[') {
            /* mode 6531 applies the host-name rules to the CONVERTED name: the harness converts it too (whatever its length - soft hyphens can pad a
             * tiny name to kilobytes); where its own conversion fails nothing is claimed about the domain codes */
            if (m == 3) { char *a = NULL; static char tmp[70100]; memcpy(tmp, D, dn); tmp[dn] = 0; int r = idn2_to_ascii_8z(tmp, &a, IDN2_NONTRANSITIONAL);
                if (r == IDN2_OK && strlen(a) < sizeof conv) { ddn = strlen(a); memcpy(conv, a, ddn); DD = conv; } else conv_ok = 0; if (a) free(a); }
            dv = ref_domain_why(DD, ddn, REF_OPTS, &whyset);
        } else if (dn) dv = ref_domainpart(D, dn, REF_OPTS, &fam);
        const char *bad = NULL;
        switch (err) {
        case EEAV_INVALID_RFC: bad = "never a result of eav_is_email"; break;
        case EEAV_IDN_ERROR: if (m != 3) bad = "IDN error outside mode 6531"; else if (conv_ok && dn && D[0] != '[') bad = "the harness's own conversion of the domain succeeds"; break;
        case EEAV_EMAIL_EMPTY: if (n != 0) bad = "address is not empty"; break;
        case EEAV_LPART_EMPTY: if (!(at == 0)) bad = "local part is not empty"; break;
        case EEAV_LPART_TOO_LONG: if (!(at > 64)) bad = "local part has <= 64 octets"; break;
        case EEAV_LPART_NOT_ASCII: if (!has_byte(L, ln, 0x80, 0xff)) bad = "local part has no byte >= 0x80"; break;
        case EEAV_LPART_SPECIAL: { int f = 0; for (size_t i = 0; i < ln; i++) if (is_spec_or_sp(L[i]) || ((REF_OPTS & RO_RFC20) && strchr("#^`{|}~", L[i]))) f = 1; if (!f) bad = "local part has no special character or space"; } break;
        case EEAV_LPART_CTRL_CHAR: if (!has_byte(L, ln, 1, 31) && !has_byte(L, ln, 127, 127)) bad = "local part has no control character"; break;
        case EEAV_LPART_MISPLACED_QUOTE: case EEAV_LPART_UNQUOTED: if (!has_byte(L, ln, '"', '"')) bad = "local part has no DQUOTE"; break;
        case EEAV_LPART_TOO_MANY_DOTS: if (!has_sub(L, ln, "..")) bad = "local part has no '..'"; break;
        case EEAV_LPART_MISPLACED_DOT: if (!(ln && (L[0] == '.' || L[ln - 1] == '.'))) bad = "local part neither starts nor ends with '.'"; break;
        case EEAV_LPART_UNQUOTED_FWS: if (!(m == 2 || (m == 3 && (REF_OPTS & RO_RFC5322)))) bad = "only the RFC 5322 rules have this condition"; else if (!has_byte(L, ln, ' ', ' ') && !has_byte(L, ln, 9, 10) && !has_byte(L, ln, 13, 13)) bad = "local part has no whitespace"; break;
        case EEAV_LPART_INVALID_FOLDING: if (m != 0) bad = "only mode 822 has folding"; else if (!has_byte(L, ln, '\r', '\r')) bad = "local part has no CR"; break;
        case EEAV_LPART_INVALID_UTF8: if (m != 3) bad = "only mode 6531 decodes UTF-8"; else if (ref_utf8_valid(L, ln)) bad = "local part is well-formed UTF-8"; break;
        case EEAV_DOMAIN_EMPTY: if (!(at < 0 || dn == 0 || (m == 3 && ddn == 0))) bad = "there is a non-empty domain"; break;   /* mode 6531: the A-label form may be empty (U+00AD is mapped to nothing) */
        case EEAV_DOMAIN_LABEL_TOO_LONG: if (!(whyset & (1 << RD_LABEL_TOO_LONG))) bad = "no label is longer than 63"; break;
        case EEAV_DOMAIN_MISPLACED_HYPHEN: if (!(whyset & (1 << RD_HYPHEN))) bad = "no label starts or ends with '-'"; break;
        case EEAV_DOMAIN_MISPLACED_DELIMITER: if (!(whyset & (1 << RD_EMPTY_LABEL))) bad = "no empty label"; break;
        case EEAV_DOMAIN_INVALID_CHAR: if (!(whyset & (1 << RD_BADCHAR))) bad = "every character is a letter, digit, hyphen or dot"; break;
        case EEAV_DOMAIN_TOO_LONG: if (!(whyset & (1 << RD_TOO_LONG)) && ddn <= 253) bad = "domain has <= 253 characters"; break;
        case EEAV_DOMAIN_NUMERIC: if (!(whyset & (1 << RD_NUMERIC))) bad = "domain is not all-numeric"; break;
        case EEAV_DOMAIN_NOT_FQDN: if (!t) bad = "TLD checking is off"; else if (memchr(DD, '.', ddn) && !(ddn && DD[ddn - 1] == '.' && !memchr(DD, '.', ddn - 1))) bad = "domain has a dot"; else if (ref_special((const char *)DD, ddn)) bad = "domain is a reserved name"; break;
        case EEAV_IPADDR_INVALID: if (!(dn && D[0] == '[')) bad = "domain does not start with '['"; else if (dv == R_ACC) bad = "the literal is valid";
            /* "the error code corresponds to the code returned by the failing per-part validator": where the text between the brackets is handed to the
             * library's own public validator of its family (tag or ':' => is_ipv6, else is_ipv4) and that validator accepts it, no validator failed */
            else if (dn > 8 && dn < 600 && D[dn - 1] == ']') { char in[600]; size_t il = dn - 2; memcpy(in, D + 1, il); in[il] = 0; int ok;
                if (il > 5 && strncasecmp(in, "IPv6:", 5) == 0) ok = is_ipv6(in + 5, in + il); else if (memchr(in, ':', il)) ok = is_ipv6(in, in + il); else ok = is_ipv4(in, in + il);
                if (ok) bad = "the library's own is_ipv4/is_ipv6 accepts the text between the brackets"; }
            break;
        case EEAV_IPADDR_BRACKET_UNPAIR: if (!(dn && D[0] == '[') || memchr(D, ']', dn)) bad = "there is a closing bracket (or no opening one)"; break;
        case EEAV_TLD_INVALID: { if (!t) { bad = "TLD checking is off"; break; } if (!memchr(DD, '.', ddn)) { bad = "the domain has a single label (not-FQDN is the true reason)"; break; } size_t i = ddn; while (i > 0 && DD[i - 1] != '.') i--; if (rt_lookup(&RT_PUNY, (const char *)DD + i, ddn - i)) bad = "the last label is in the table"; } break;
        default:
            if (err >= EEAV_TLD_NOT_ASSIGNED && err <= EEAV_TLD_RETIRED) {
                int cls = err - EEAV_TLD_NOT_ASSIGNED + TLD_TYPE_NOT_ASSIGNED;
                if (!t) bad = "TLD checking is off";
                else if (e->allow_tld & (1 << (cls + 1))) bad = "the class bit is set in allow_tld";
                else if (cls == TLD_TYPE_SPECIAL) { if (!ref_special((const char *)DD, (ddn > 1 && DD[ddn - 1] == '.') ? ddn - 1 : ddn)) bad = "domain is not a reserved name"; }
                else { size_t i = ddn; while (i > 0 && DD[i - 1] != '.') i--; if (rt_lookup(&RT_PUNY, (const char *)DD + i, ddn - i) != cls) bad = "punycode.csv gives another class (or none)"; }
            }
        }
        /* any local-part error only if the local part really is invalid for the mode; any domain error only if the domain is */
        if (!bad && err >= EEAV_LPART_EMPTY && err <= EEAV_LPART_INVALID_UTF8 && err != EEAV_LPART_TOO_LONG && lv == R_ACC) bad = "the local part is valid for this mode";
        if (!bad && err >= EEAV_DOMAIN_LABEL_TOO_LONG && err <= EEAV_DOMAIN_NUMERIC && dv == R_ACC && conv_ok) bad = "the domain is a valid host name";
        if (bad) { char w[96]; snprintf(w, sizeof w, "untrue-diagnostic:%s:code-%d", MN[m], err); viol(w, m, t, s, n, "errcode %d (%s) but %s", err, MSG[err], bad); }
    }
    if (at > 0) MC_ADD(C_NONTRIV, 1);
}
static eav_result_t *cb_rc; static int CB_RC;
static eav_result_t *cb(const char *e, size_t l, bool t) { (void)e; (void)l; (void)t; cb_rc = calloc(1, sizeof *cb_rc); cb_rc->rc = CB_RC; cb_rc->is_domain = 1; return cb_rc; }
static void sink_counters(void) {
    for (int c = 0; c < EEAV_MAX; c++) { char nm[32]; snprintf(nm, sizeof nm, "code_%02d", c); C_CODE[c] = mc_counter(nm); }
    for (int m = 0; m < 4; m++) for (int k = 0; k < 3; k++) { eav_t *e = &OBJ[m][k]; memset(e, 0, sizeof *e); eav_init(e); e->rfc = RFC[m]; e->tld_check = k > 0; if (k == 2) e->allow_tld = 0; if (eav_setup(e)) exit(2); }
}
/* the classes the shipped table cannot produce (test, retired) are reached through a caller-installed callback */
static void inject_phase(long shard, void *arg) {
    (void)shard; (void)arg;
    for (int m = 0; m < 4; m++) for (int cls = 1; cls <= 9; cls++) {
        eav_t e; memset(&e, 0, sizeof e); eav_init(&e); e.rfc = RFC[m]; e.allow_tld = 0; eav_setup(&e); e.ascii_cb = cb; e.utf8_cb = cb; CB_RC = cls;
        int ret = eav_is_email(&e, "i@j.k", 5); const char *msg = eav_errstr(&e); int code = EEAV_TLD_NOT_ASSIGNED + cls - 1;
        MC_ADD(C_EVAL, 1); MC_ADD(C_CODE[e.errcode >= 0 && e.errcode < EEAV_MAX ? e.errcode : 0], 1);
        if (ret != 0 || e.errcode != code || !msg || strcmp(msg, MSG[code]))
            mc_violation("noreplay-injected-class", "injected-class:wrong-code-or-message", "", MN[m], "", 0, "class %d: ret=%d errcode=%d msg=%s (want 0, %d, %s)", cls, ret, e.errcode, msg ? msg : "NULL", code, MSG[code]);
        eav_free(&e);
    }
}
#define PROPNAME "C15"
#define HAVE_INJECT 1
#endif

/* ------------------------------------------------------------------ common main */
static void phase_shard(long shard, void *arg) { (void)arg; corpus_run(CURPH, shard, sink, NULL); }
static int do_replay(void) {
    mc_replay_t r; if (mc_load_replay(mc_replay, &r)) return 2;
    mc_replay_hit = 0;
    for (int i = 0; i < CP_N; i++) if (!strcmp(r.sub, corpus_name(i))) CURPH = i;
    static char predbuf[96]; const char *pp = strstr(r.cfg, "pred="); if (pp) { snprintf(predbuf, sizeof predbuf, "%s", pp + 5); g_pred = predbuf; }
    sink(r.in, (size_t)r.len, NULL);
    printf("replay %s: %s\n", mc_replay, mc_replay_hit ? "VIOLATION reproduced" : "no violation");
    return mc_replay_hit ? 1 : 0;
}
int main(int argc, char **argv) {
    mc_init(argc, argv, PROPNAME);
    CORPUS_DEEP = mc_thorough;
    C_ADDR = mc_counter("addresses");
    for (int i = 0; i < CP_N; i++) { char nm[48]; snprintf(nm, sizeof nm, "corpus_%d_addresses", i); C_PERPHASE[i] = mc_counter(nm); }
    if (corpus_load()) return 2;
    sink_counters();
    if (mc_replay) return do_replay();
#ifdef HAVE_INJECT
    mc_parallel("injected classes 1..9 through a caller-installed callback", 1, inject_phase, NULL);
#endif
#ifdef HAVE_PAIRS
    CURPH = CP_TLD; mc_parallel("pairs: every ordered pair of the 1296 addresses x@b.XY, second right after the first", 1296, pair_phase, NULL);
#endif
    for (int ph = 0; ph < CP_N; ph++) { CURPH = ph; char nm[64]; snprintf(nm, sizeof nm, "%.40s (N=%d)", corpus_name(ph), corpus_N(ph)); mc_parallel(nm, corpus_shards(ph), phase_shard, NULL); }
    return mc_finish();
}
