/* tld.c - C07 (default) and C09 (-DC09): classification of host-name domains with TLD checking on.
 * One decisive comparison (check_class) shared by both; generators differ.
 * Expected class of a valid host name D without root dot (reference, written from the statements):
 *   reserved (ref_special)            -> TLD_TYPE_SPECIAL
 *   single label                      -> -EEAV_DOMAIN_NOT_FQDN
 *   last label listed in punycode.csv -> its class (rule of gentld.pl)
 *   otherwise                         -> -EEAV_TLD_INVALID
 * Compared in the four modes through is_*_email(x@D, true), through eav_is_email with a mask that allows
 * everything / nothing, and through is_special_domain / is_tld directly.
 */
#include "corpus.h"
#include "../ref/ref_idn.h"
#include "../ref/ref_tld.h"
#include <eav.h>
#include <eav/auto_tld.h>

static int C_CASES, C_SPECIAL, C_LISTED, C_UNLISTED, C_NOTFQDN, C_SKIP6531, C_ULABEL;
typedef eav_result_t *(*email_fn)(const char *, size_t, bool);
#ifdef HAVE_IDNKIT
/* the idnkit build's is_6531_email takes a resolver context: mode 6531 goes through a long-lived eav_t that allows every class (record copied out) */
static eav_t OBJ6531; static int obj6531_ready;
static eav_result_t *via_object_6531(const char *e, size_t l, bool t) {
    (void)t;
    if (!obj6531_ready) { memset(&OBJ6531, 0, sizeof OBJ6531); eav_init(&OBJ6531); OBJ6531.rfc = EAV_RFC_6531; OBJ6531.tld_check = true; OBJ6531.allow_tld = 0x7fe; if (eav_setup(&OBJ6531)) exit(2); obj6531_ready = 1; }
    eav_is_email(&OBJ6531, e, l);
    eav_result_t *r = calloc(1, sizeof *r), *s = OBJ6531.result;
    if (s) { r->rc = s->rc; r->is_ipv4 = s->is_ipv4; r->is_ipv6 = s->is_ipv6; r->is_domain = s->is_domain; r->idn_rc = s->idn_rc; } else r->rc = -EEAV_EMAIL_EMPTY;
    return r;
}
#define is_6531_email via_object_6531
#endif
static email_fn EMAIL[4] = { is_822_email, is_5321_email, is_5322_email, is_6531_email };
static const char *MN[4] = { "822", "5321", "5322", "6531" };
static const EAV_RFC RFC[4] = { EAV_RFC_822, EAV_RFC_5321, EAV_RFC_5322, EAV_RFC_6531 };
static eav_t ALL[4], NONE[4];
#ifndef REF_OPTS
#define REF_OPTS 0
#endif
static int g_all_lp;      /* replay: try every local-part shape */
static int g_only6531;    /* steps on the other back ends: the ASCII modes share their code with the default build, only mode 6531 is theirs */
static int g_distinct;   /* set by a generator while the domains it emits are pairwise distinct by construction */

static int expected_class(const char *d, size_t n) {
    if (ref_special(d, n)) return TLD_TYPE_SPECIAL;
    size_t i = n; while (i > 0 && d[i - 1] != '.') i--;
    if (i == 0) return -EEAV_DOMAIN_NOT_FQDN;
    int c = rt_lookup(&RT_PUNY, d + i, n - i);
    return c ? c : -EEAV_TLD_INVALID;
}

/* d: ASCII host name (valid per ref_domain, no root dot) */
static void check_class(const char *sub, const char *d, size_t n) {
    if (n + 3 > 600) return;
    if (ref_domain((const unsigned char *)d, n, REF_OPTS) != R_ACC || d[n - 1] == '.') return;   /* out of the statement's scope */
#if (REF_OPTS & 4)
    /* LABELS_ALLOW_UNDERSCORE build: the option makes '_' a label character and documents nothing else - the class of a name is still that of its last
     * one or two labels.  Every name with at least two labels is checked again with a '_' inside its FIRST label (second character, or appended to a
     * one-character label), unless that label takes part in a reserved two-label name. */
    { static int in_twin; const char *dot = memchr(d, '.', n);
      if (!in_twin && dot && n + 2 < 600 && memchr(dot + 1, '.', n - (size_t)(dot + 1 - d))) { char tw[600]; size_t fl = (size_t)(dot - d);
          if (fl >= 3) { memcpy(tw, d, n); tw[1] = '_'; in_twin = 1; check_class("underscore-twin", tw, n); in_twin = 0; }
          else { memcpy(tw, d, fl); tw[fl] = '_'; tw[fl + 1] = 'q'; memcpy(tw + fl + 2, d + fl, n - fl); in_twin = 1; check_class("underscore-twin", tw, n + 2); in_twin = 0; } } }
#endif
    /* the local part must not matter: three shapes (one with dots, one quoted with a dot and an '@'); single-label domains get all of them,
     * the others rotate through them */
    static const char *const LP[3] = { "x", "first.last", "\"q.r@s\".t" };
    static unsigned rot;
    int single = memchr(d, '.', n) == NULL;
    int exp = expected_class(d, n);
    for (int lpi = 0; lpi < ((single || g_all_lp) ? 3 : 1); lpi++) {
    const char *lp = LP[(single || g_all_lp) ? lpi : (rot++ % 3)]; size_t lpl = strlen(lp);
    char buf[700]; memcpy(buf, lp, lpl); buf[lpl] = '@'; memcpy(buf + lpl + 1, d, n); buf[lpl + 1 + n] = 0;
    size_t off = lpl + 1;
    mc_current(sub, lp, d, n);
    MC_ADD(C_CASES, 1);
    if (g_distinct) MC_ADD(C_NONTRIV, 1);
    MC_ADD(exp == TLD_TYPE_SPECIAL ? C_SPECIAL : exp == -EEAV_DOMAIN_NOT_FQDN ? C_NOTFQDN : exp > 0 ? C_LISTED : C_UNLISTED, 1);
    int transparent = ref_idn_transparent((const unsigned char *)d, n);
    for (int m = g_only6531 ? 3 : 0; m < 4; m++) {
        eav_result_t *r = EMAIL[m](buf, n + off, true);
        int rc = r->rc; eav_result_free(r);
        MC_ADD(C_EVAL, 1);
        char cfg[64]; snprintf(cfg, sizeof cfg, "mode=%s lp=%d", MN[m], (int)(lp == LP[0] ? 0 : lp == LP[1] ? 1 : 2));
        if (m == 3 && rc == -EEAV_IDN_ERROR && !transparent) { MC_ADD(C_SKIP6531, 1); continue; }   /* IDNA rejects this ASCII spelling (C10) */
        if (rc != exp) {
            char w[96];
            if (exp == TLD_TYPE_SPECIAL) snprintf(w, sizeof w, "%s:reserved-domain-classified-%d", MN[m], rc);
            else if (rc == TLD_TYPE_SPECIAL) snprintf(w, sizeof w, "%s:non-reserved-classified-special", MN[m]);
            else if (exp > 0) snprintf(w, sizeof w, "%s:listed-tld-wrong-result-%s", MN[m], rc < 0 ? "rejected" : "class");
            else snprintf(w, sizeof w, "%s:expected-%d-got-%d", MN[m], exp, rc > 0 ? 1 : rc);
            mc_violation(sub, w, "", cfg, d, n, "is_%s_email(x@D, tld on): expected rc %d, library rc %d", MN[m], exp, rc);
        }
        /* object API: mask allowing everything accepts iff class; mask allowing nothing rejects with the class code */
        int ra = eav_is_email(&ALL[m], buf, n + off), ea = ALL[m].errcode;
        int rn = eav_is_email(&NONE[m], buf, n + off), en = NONE[m].errcode;
        MC_ADD(C_EVAL, 2);
        if (exp > 0) {
            int code = EEAV_TLD_NOT_ASSIGNED + exp - TLD_TYPE_NOT_ASSIGNED;
            if (ra != 1 || ea != EEAV_NO_ERROR || rn != 0 || en != code)
                mc_violation(sub, "eav:class-not-reflected-by-object-api", "", cfg, d, n, "class %d: allow-all ret=%d err=%d, allow-none ret=%d err=%d (want 1/0 and 0/%d)", exp, ra, ea, rn, en, code);
            /* ... and the refusal names that class: the message is the IANA type of the row ('-' or ' ' between words) followed by " TLD" */
            { const char *ms = eav_errstr(&NONE[m]); char want[48]; snprintf(want, sizeof want, "%s TLD", rt_name[exp]); int okm = ms && strlen(ms) == strlen(want);
              for (size_t i = 0; okm && want[i]; i++) if (ms[i] != want[i] && !(want[i] == '-' && ms[i] == ' ')) okm = 0;
              if (!okm) mc_violation(sub, "eav:refusal-names-another-class", "", cfg, d, n, "class %d refused by an empty mask: eav_errstr says \"%s\", the row's type is %s", exp, ms ? ms : "(null)", rt_name[exp]); }
        } else if (ra != 0 || rn != 0 || ea != -exp || en != -exp)
            mc_violation(sub, "eav:negative-result-not-reflected-by-object-api", "", cfg, d, n, "expected error %d: allow-all ret=%d err=%d, allow-none ret=%d err=%d", -exp, ra, ea, rn, en);
    }
    }
    char buf[700]; memcpy(buf + 2, d, n); buf[n + 2] = 0;
    /* the part validators */
    int sp = is_special_domain(buf + 2, buf + 2 + n);
    MC_ADD(C_EVAL, 1);
    if ((sp != 0) != (exp == TLD_TYPE_SPECIAL))
        mc_violation(sub, sp ? "is_special_domain:false-positive" : "is_special_domain:false-negative", "", "ctx=is_special_domain", d, n, "is_special_domain returned %d, reference says %s", sp, exp == TLD_TYPE_SPECIAL ? "reserved" : "not reserved");
}

/* mode 6531 with a U-label spelling: class must be that of the A-label row */
static rt_csv_t RAW;
static void check_ulabel(const char *pre, int row) {
    char d[800]; snprintf(d, sizeof d, "%s%s", pre, RAW.row[row].domain);
    size_t n = strlen(d); char buf[820]; snprintf(buf, sizeof buf, "x@%s", d);
    mc_current("ulabel", "mode=6531", d, n);
    eav_result_t *r = is_6531_email(buf, n + 2, true); int rc = r->rc; eav_result_free(r);
    MC_ADD(C_EVAL, 1); MC_ADD(C_ULABEL, 1);
    int exp = RT_PUNY.row[row].cls;
    if (pre[0] == 0) exp = -EEAV_DOMAIN_NOT_FQDN;
    { char *a = NULL; int cr = idn2_to_ascii_8z(d, &a, IDN2_NONTRANSITIONAL); int okd = (cr == IDN2_OK) && ref_domain((const unsigned char *)a, strlen(a), 0) == R_ACC; if (a) free(a);
      if (!okd) return; }      /* the harness's own conversion does not give a valid host name: outside this check's scope */
    if (rc != exp) mc_violation("ulabel", "6531:u-label-class", "", "mode=6531", d, n, "U-label spelling: expected %d (class of '%s'), library rc %d", exp, RT_PUNY.row[row].domain, rc);
}

/* mode 6531 with a spelling that only IDNA mapping turns into the name (alternative dots, fullwidth letters, soft hyphens, long s):
 * the class must be that of the converted name (conversion done independently by the harness) */
static int C_MAPPED, C_LIBROWS;
static void check_class_u(const char *sub, const char *u) {
    size_t n = strlen(u); if (n == 0 || n > 900) return;
    char *a = NULL; int cr = idn2_to_ascii_8z(u, &a, IDN2_NONTRANSITIONAL);
    if (cr != IDN2_OK || !a) { if (a) free(a); return; }
    size_t an = strlen(a);
    if (an == 0 || a[an - 1] == '.' || ref_domain((const unsigned char *)a, an, 0) != R_ACC) { free(a); return; }
    int exp = expected_class(a, an);
    char buf[1000]; int bn = snprintf(buf, sizeof buf, "x@%s", u);
    mc_current(sub, "mode=6531", u, n);
    eav_result_t *r = is_6531_email(buf, (size_t)bn, true); int rc = r->rc; eav_result_free(r);
    MC_ADD(C_EVAL, 1); MC_ADD(C_MAPPED, 1);
    if (rc != exp) { char w[80]; snprintf(w, sizeof w, "6531:mapped-spelling:%s", exp == TLD_TYPE_SPECIAL ? "reserved-not-special" : rc == TLD_TYPE_SPECIAL ? "non-reserved-special" : "wrong-class");
        mc_violation(sub, w, "", "mode=6531", u, n, "converted name '%s' has class %d, library rc %d for the mapped spelling", a, exp, rc); }
    free(a);
}
static void fullwidth(const char *in, char *out) { int l = 0; for (; *in; in++) { if (*in >= 'a' && *in <= 'z') { out[l++] = (char)0xef; out[l++] = (char)0xbd; out[l++] = (char)(0x81 + (*in - 'a')); } else out[l++] = *in; } out[l] = 0; }
static void mapped_variants(const char *sub, const char *name) {
    static const char *const DOT[4] = { ".", "\xe3\x80\x82", "\xef\xbc\x8e", "\xef\xbd\xa1" };
    static const char *const PRE[4] = { "mail", "abcdefg", "\xd0\xb6", "a.b" };
    char fw[300], shy[300], up[300], d[900];
    fullwidth(name, fw);
    { int l = 0; size_t nl = strlen(name); for (size_t i = 0; i < nl; i++) { shy[l++] = name[i]; if (i == nl / 2) { shy[l++] = (char)0xc2; shy[l++] = (char)0xad; } } shy[l] = 0; }
    { int l = 0; for (const char *q = name; *q; q++) up[l++] = (char)toupper((unsigned char)*q); up[l] = 0; }
    const char *sp[4] = { name, fw, shy, up };
    for (int v = 0; v < 4; v++) for (int p = 0; p < 4; p++) for (int d1 = 0; d1 < 4; d1++) {
        /* inner dots of the name (example.com) spelled with the same alternative dot */
        char nm[400]; int m = 0; for (const char *q = sp[v]; *q; q++) { if (*q == '.') { strcpy(nm + m, DOT[d1]); m += (int)strlen(DOT[d1]); } else nm[m++] = *q; } nm[m] = 0;
        snprintf(d, sizeof d, "%s%s%s", PRE[p], DOT[d1], nm); check_class_u(sub, d);
        if (p == 0) check_class_u(sub, nm);
    }
}

/* a reserved label extended by 1-3 characters at either end is an ordinary (unlisted) label; a two-character extension passes length
 * pre-filters that a one-character one does not */
static void reserved_extensions(const char *suf) {
    static const char EXT[] = "aly1-x"; static const char *const PX[] = { "", "m.", "abcdefg.", "a.b." }; char d2[200];
    /* dotted suffixes too: example.com-x, example.orgs, xexample.com are ordinary names */
    for (int a = 0; a < 6; a++) for (int b = -1; b < 6; b++) for (int c = -1; c < (b < 0 ? 0 : 6); c++) for (int k = 0; k < 4; k++) {
        char e[8]; int l = 0; e[l++] = EXT[a]; if (b >= 0) e[l++] = EXT[b]; if (c >= 0) e[l++] = EXT[c]; e[l] = 0;
        snprintf(d2, sizeof d2, "%s%s%s", PX[k], suf, e); check_class("extension", d2, strlen(d2));
        snprintf(d2, sizeof d2, "%s%s%s", PX[k], e, suf); check_class("extension", d2, strlen(d2));
        for (char *q = d2; *q; q++) *q = (char)toupper((unsigned char)*q); check_class("extension", d2, strlen(d2));
    }
}

#ifndef C09
/* ------------------------------- C07 generators ------------------------------- */
static char L63[64];
static const char *PRE[8];
/* the table the library actually walks: every row of its own tld_list as the last label.  A row that the shipped CSV data does not
 * have (or has with another class) is a label the library classifies differently from the shipped IANA table; the CSV rows alone cannot
 * reveal an extra row.  One shard per 64 rows. */
static long libtable_rows(void) { long n = 0; while (tld_list[n].domain) n++; return n; }
static void libtable_shard(long shard, void *arg) {
    (void)arg; char d[400], u[300];
    for (long i = shard * 64; i < shard * 64 + 64; i++) {
        if (!tld_list[i].domain) return;
        const char *t = tld_list[i].domain; size_t tl = strlen(t); if (tl == 0 || tl > 200) continue;
        snprintf(d, sizeof d, "mail.%s", t); check_class("libtable", d, strlen(d));
        for (size_t k = 0; k <= tl; k++) u[k] = (char)toupper((unsigned char)t[k]);
        snprintf(d, sizeof d, "a.b.%s", u); check_class("libtable", d, strlen(d));
        MC_ADD(C_LIBROWS, 1);
    }
}

static void rows_shard(long shard, void *arg) {
    (void)arg; const char *t = RT_PUNY.row[shard].domain; size_t n = strlen(t); char v[300], d[700];
    for (int variant = 0; variant < 5; variant++) {
        for (size_t i = 0; i < n; i++) { int c = t[i]; if (variant == 1 || (variant == 2 && i == 0) || (variant == 3 && (i & 1)) || (variant == 4 && i == n - 1)) c = toupper(c); v[i] = (char)c; }
        v[n] = 0;
        g_distinct = (variant < 2);      /* lower-case and upper-case spellings x distinct prefixes: pairwise distinct */
        /* 0..4 preceding labels */
        check_class("rows", v, n);
        for (int a = 0; a < 8; a++) {
            snprintf(d, sizeof d, "%s.%s", PRE[a], v); check_class("rows", d, strlen(d));
            for (int b = 0; b < 8; b++) {
                snprintf(d, sizeof d, "%s.%s.%s", PRE[b], PRE[a], v); check_class("rows", d, strlen(d));
                if (variant == 0 && (a + b) % 3 == 0) {
                    snprintf(d, sizeof d, "%s.%s.%s.%s", PRE[(a + 3) % 8], PRE[b], PRE[a], v); check_class("rows", d, strlen(d));
                    snprintf(d, sizeof d, "%s.%s.%s.%s.%s", PRE[(b + 5) % 8], PRE[(a + 3) % 8], PRE[b], PRE[a], v); check_class("rows", d, strlen(d));
                }
            }
        }
    }
    g_distinct = 0;
    /* the row as first / middle label with an unlisted last label, and followed by itself */
    snprintf(d, sizeof d, "%s.zzzzq", t); check_class("rows-notlast", d, strlen(d));
    snprintf(d, sizeof d, "a.%s.zzzzq", t); check_class("rows-notlast", d, strlen(d));
    snprintf(d, sizeof d, "%s.a.qq7", t); check_class("rows-notlast", d, strlen(d));
    snprintf(d, sizeof d, "%s.%s", t, t); check_class("rows", d, strlen(d));
    /* near misses as last label after "a." and after "abcdefg." */
    static const char AL[] = "abcdefghijklmnopqrstuvwxyz0123456789-";
    for (int pi = 0; pi < 2; pi++) {
        const char *pre = pi ? "abcdefg." : "a."; size_t pl = strlen(pre);
        memcpy(d, pre, pl); char *x = d + pl;
        for (size_t p = 1; p < n; p++) { memcpy(x, t, p); check_class("near-prefix", d, pl + p); memcpy(x, t + p, n - p); check_class("near-suffix", d, pl + n - p); }
        for (size_t p = 0; p < n; p++) {
            memcpy(x, t, p); memcpy(x + p, t + p + 1, n - p - 1); if (n > 1) check_class("near-deletion", d, pl + n - 1);
            for (const char *a = AL; *a; a++) { memcpy(x, t, n); x[p] = *a; check_class("near-substitution", d, pl + n); }
            /* upper-case letters too: a hand-written case-insensitive comparison that folds by arithmetic (|0x20, +-32) also "folds" a digit or the
             * hyphen onto a letter of the other case ('1' ~ 'Q', '-' ~ 'M') */
            if (pi == 0) for (int a = 'A'; a <= 'Z'; a++) { memcpy(x, t, n); x[p] = (char)a; check_class("near-substitution", d, pl + n); }
        }
        for (size_t p = 0; p <= n; p++) for (const char *a = AL; *a; a++) { memcpy(x, t, p); x[p] = *a; memcpy(x + p + 1, t + p, n - p); check_class("near-insertion", d, pl + n + 1); }
    }
    mapped_variants("mapped-row", t);
    /* U-label spelling in mode 6531 */
    check_ulabel("a.", (int)shard); check_ulabel("", (int)shard); check_ulabel("abcdefg.xn--p1ai.", (int)shard);
    /* long non-ASCII labels in front: the UTF-8 spelling exceeds 255 bytes, the A-label form does not */
    { static char LONGPRE[2][700]; if (!LONGPRE[0][0]) for (int v = 0; v < 2; v++) { int l = 0; for (int k = 0; k < 4 + v; k++) { for (int i = 0; i < 35 - 6 * v; i++) { LONGPRE[v][l++] = (char)0xd0; LONGPRE[v][l++] = (char)(0xb0 + (i + 3 * k) % 16); } LONGPRE[v][l++] = '.'; } LONGPRE[v][l] = 0; }
      check_ulabel(LONGPRE[0], (int)shard); check_ulabel(LONGPRE[1], (int)shard); }
}
static void short_shard(long shard, void *arg) {
    (void)arg; static const char AL[] = "abcdefghijklmnopqrstuvwxyz0123456789"; char d[16] = "a.";
    { static const char *const R8[8] = { "test", "example", "invalid", "localhost", "onion", "example.com", "example.net", "example.org" }; if (shard < 8) reserved_extensions(R8[shard]); }
    d[2] = AL[shard]; check_class("short", d, 3);
    for (int b = 0; b < 36; b++) {
        d[3] = AL[b]; check_class("short", d, 4);
        for (int c = 0; c < 36; c++) { d[4] = AL[c]; check_class("short", d, 5); }
    }
    for (int c = 0; c < 36; c++) { d[3] = '-'; d[4] = AL[c]; check_class("short", d, 5); }
}
#else
/* ------------------------------- C09 generators ------------------------------- */
static const char *const RES[8] = { "test", "example", "invalid", "localhost", "onion", "example.com", "example.net", "example.org" };
static void fill_label(char *o, int len, int kind) {
    static const char *const W[] = { "example", "test", "website" };
    for (int i = 0; i < len; i++)
        o[i] = kind == 0 ? (char)('a' + i % 26) : kind == 1 ? (char)('0' + i % 10) : W[kind - 2][i % (int)strlen(W[kind - 2])];
    if (kind == 1 && len > 0) o[0] = 'n';     /* keep the domain non-numeric and the label alnum */
}
static void casevar(char *s, size_t n, unsigned pat) {     /* upper-case letter i of the suffix when bit i of pat is set */
    unsigned bit = 0;
    for (size_t i = 0; i < n; i++) if (isalpha((unsigned char)s[i])) { if (pat & (1u << bit)) s[i] = (char)toupper((unsigned char)s[i]); bit++; }
}
static int nletters(const char *s) { int k = 0; for (; *s; s++) if (isalpha((unsigned char)*s)) k++; return k; }

/* shard = (reserved suffix index, length of the label right before it 0..63) ; 0 = no preceding label */
static void res_shard(long shard, void *arg) {
    (void)arg; int ri = (int)(shard % 8), l1 = (int)(shard / 8);
    char d[700]; const char *suf = RES[ri]; size_t sl = strlen(suf);
    int nl = nletters(suf); unsigned npat = 1u << nl;
    for (int kind = 0; kind < 5; kind++) {
        if (l1 == 0 && kind) break;
        size_t o = 0;
        if (l1) { fill_label(d, l1, kind); o = (size_t)l1; d[o++] = '.'; }
        /* every case pattern of the suffix with 0-1 preceding labels */
        for (unsigned pat = 0; pat < npat; pat++) {
            if (kind && pat && pat != npat - 1 && pat != 1 && pat != (npat >> 1)) continue;   /* all patterns only for kind 0 */
            memcpy(d + o, suf, sl); casevar(d + o, sl, pat);
            g_distinct = (kind == 0);   /* kind 0: all 2^letters case patterns x one preceding label per length: pairwise distinct */
            check_class(l1 ? "reserved-1label" : "reserved-bare", d, o + sl);
            g_distinct = 0;
        }
        if (!l1) continue;
        /* two and three preceding labels: second label of every length 1..63 (all length pairs for <= 2 labels) */
        for (int l2 = 1; l2 <= 63; l2++) for (int k2 = 0; k2 < (l2 == 7 || l2 == 4 ? 5 : 1); k2++) {
            size_t p = 0; char e[700];
            fill_label(e, l2, k2 ? k2 : (kind + 1) % 5); p = (size_t)l2; e[p++] = '.';
            if (p + o + sl > 253) continue;
            memcpy(e + p, d, o); memcpy(e + p + o, suf, sl);
            static const unsigned pats[5] = { 0, 1, 0x15, 0xffff, 0x2a };
            for (int q = 0; q < 5; q++) { memcpy(e + p + o, suf, sl); casevar(e + p + o, sl, pats[q] & (npat - 1)); check_class("reserved-2labels", e, p + o + sl); }
            if (l2 <= 8 || l2 >= 62) for (int l3 = 1; l3 <= 63; l3 += (l3 < 9 ? 1 : 9)) {
                char g[700]; size_t z = 0; fill_label(g, l3, (l3 + kind) % 5); z = (size_t)l3; g[z++] = '.';
                if (z + p + o + sl > 253) continue;
                memcpy(g + z, e, p + o); memcpy(g + z + p + o, suf, sl);
                check_class("reserved-3labels", g, z + p + o + sl);
            }
        }
    }
}
/* a reserved name that is NOT at the end: followed by one more label of every length 1..63 (a one-character label is what a root-dot test by
 * length confuses with the root), by table rows of several classes, by another reserved word and by two labels; with 0-2 labels in front */
static void trailing_shard(long shard, void *arg) {
    (void)arg; const char *suf = RES[shard]; char d[400], t[80];
    static const char *const FR[] = { "", "b.", "a.b.", "example.", "www.test." };
    static const char *const TL[] = { "com", "uk", "museum", "xn--p1ai", "arpa", "test", "example", "localhost", "invalid", "onion", "a.b", "x.com", "1a", "a1", "q-q", "zzzzq", "co.uk", "COM", "A" };
    for (unsigned f = 0; f < sizeof FR / sizeof FR[0]; f++) {
        for (int tl = 1; tl <= 63; tl++) for (int k = 0; k < 2; k++) { for (int i = 0; i < tl; i++) t[i] = (char)(k ? 'A' + (i * 7 + tl) % 26 : 'a' + (i + tl) % 26); t[tl] = 0;
            int n = snprintf(d, sizeof d, "%s%s.%s", FR[f], suf, t); if (n > 0 && n <= 253) check_class("reserved-notlast", d, (size_t)n); }
        for (unsigned j = 0; j < sizeof TL / sizeof TL[0]; j++) { int n = snprintf(d, sizeof d, "%s%s.%s", FR[f], suf, TL[j]); if (n > 0 && n <= 253) check_class("reserved-notlast", d, (size_t)n); }
        for (int c = 0; c < 36; c++) { int n = snprintf(d, sizeof d, "%s%s.%c", FR[f], suf, c < 26 ? 'a' + c : '0' + c - 26); if (n > 0) check_class("reserved-notlast", d, (size_t)n); }
    }
}
/* one-edit neighbours of each reserved suffix, with 0-2 preceding labels of assorted lengths */
static void neigh_shard(long shard, void *arg) {
    (void)arg; const char *suf = RES[shard];
    mapped_variants("mapped-reserved", suf);
    reserved_extensions(suf); size_t sl = strlen(suf); char v[64], d[300];
    static const char *const PRES[] = { "", "a.", "abcdefg.", "example.", "test.", "a.b.", "abcdefg.abcdefg.", "x.example.", "example.example." };
    static const char INS[] = "a1-.";
    char cand[400][64]; int nc = 0;
    for (size_t p = 0; p < sl; p++) {
        memcpy(v, suf, p); memcpy(v + p, suf + p + 1, sl - p - 1); v[sl - 1] = 0; strcpy(cand[nc++], v);                 /* deletion */
        for (const char *a = "ab1-"; *a; a++) { memcpy(v, suf, sl); v[p] = *a; v[sl] = 0; if (v[p] != suf[p]) strcpy(cand[nc++], v); }   /* substitution */
    }
    for (size_t p = 0; p <= sl; p++) for (const char *a = INS; *a; a++) { memcpy(v, suf, p); v[p] = *a; memcpy(v + p + 1, suf + p, sl - p); v[sl + 1] = 0; strcpy(cand[nc++], v); }
    /* swaps of adjacent characters, doubled last char, plural */
    for (size_t p = 0; p + 1 < sl; p++) { memcpy(v, suf, sl); v[sl] = 0; char t = v[p]; v[p] = v[p + 1]; v[p + 1] = t; strcpy(cand[nc++], v); }
    for (int i = 0; i < nc; i++) for (unsigned k = 0; k < sizeof PRES / sizeof PRES[0]; k++) {
        snprintf(d, sizeof d, "%s%s", PRES[k], cand[i]); check_class("neighbour", d, strlen(d));
        for (char *q = d; *q; q++) *q = (char)toupper((unsigned char)*q);
        check_class("neighbour", d, strlen(d));
    }
}
#endif

/* the label-depth corpus (shared with the other checks): 24 suffixes behind every sequence of 0-4 labels over 6 shapes, and behind 5..126 one-letter labels */
static int C_DEPTHC;
static void depth_emit(const unsigned char *s, size_t n, void *arg) { (void)arg; if (n > 2 && s[0] == 'x' && s[1] == '@') { check_class("depth", (const char *)s + 2, n - 2); MC_ADD(C_DEPTHC, 1); } }
static void depth_shard(long shard, void *arg) { (void)arg; corpus_run(CP_DEPTH, shard, depth_emit, NULL); }
static void embed_emit(const unsigned char *s, size_t n, void *arg) { (void)arg; if (n > 2 && s[0] == 'x' && s[1] == '@' && s[n - 1] != '.') { check_class("embed", (const char *)s + 2, n - 2); MC_ADD(C_DEPTHC, 1); } }
static void embed_shard(long shard, void *arg) { (void)arg; corpus_run(CP_EMBED, shard, embed_emit, NULL); }

static int do_replay(void) {
    mc_replay_t r; if (mc_load_replay(mc_replay, &r)) return 2;
    mc_replay_hit = 0; g_all_lp = 1;
    if (!strcmp(r.sub, "ulabel")) {
        /* find the row by suffix */
        char d[800]; memcpy(d, r.in, (size_t)r.len); d[r.len] = 0;
        for (int i = 0; i < RAW.n; i++) { size_t l = strlen(RAW.row[i].domain); if ((size_t)r.len >= l && !strcmp(d + r.len - l, RAW.row[i].domain)) { d[r.len - (int)l] = 0; check_ulabel(d, i); break; } }
    } else if (!strncmp(r.sub, "mapped", 6)) { char d[1000]; memcpy(d, r.in, (size_t)r.len); d[r.len] = 0; check_class_u(r.sub, d); }
    else check_class(r.sub, (char *)r.in, (size_t)r.len);
    printf("replay %s: %s\n", mc_replay, mc_replay_hit ? "VIOLATION reproduced" : "no violation");
    return mc_replay_hit ? 1 : 0;
}

int main(int argc, char **argv) {
#ifdef C09
    mc_init(argc, argv, "C09");
#else
    mc_init(argc, argv, "C07");
#endif
    for (int i = 1; i < argc; i++) if (!strcmp(argv[i], "--only6531")) g_only6531 = 1;
    C_CASES = mc_counter("domains_classified"); C_SPECIAL = mc_counter("expected_special"); C_LISTED = mc_counter("expected_listed_class");
    C_UNLISTED = mc_counter("expected_invalid_tld"); C_NOTFQDN = mc_counter("expected_not_fqdn"); C_SKIP6531 = mc_counter("mode6531_idn_error_on_ascii_skipped");
    C_ULABEL = mc_counter("u_label_cases"); C_DEPTHC = mc_counter("depth_corpus_domains"); C_LIBROWS = mc_counter("library_table_rows_walked"); C_MAPPED = mc_counter("idna_mapped_spellings");
    if (rt_load()) return 2;
    char p[1024]; snprintf(p, sizeof p, "%s/data/raw.csv", rt_repo()); if (rt_read_csv(p, &RAW, 1)) return 2;
    for (int m = 0; m < 4; m++) {
        memset(&ALL[m], 0, sizeof ALL[m]); eav_init(&ALL[m]); ALL[m].rfc = RFC[m]; ALL[m].allow_tld = 0x7fc; if (eav_setup(&ALL[m])) return 2;
        memset(&NONE[m], 0, sizeof NONE[m]); eav_init(&NONE[m]); NONE[m].rfc = RFC[m]; NONE[m].allow_tld = 0; if (eav_setup(&NONE[m])) return 2;
    }
    if (mc_replay) return do_replay();
#ifndef C09
    memset(L63, 'q', 63); PRE[0] = "a"; PRE[1] = "abcdefg"; PRE[2] = L63; PRE[3] = "com"; PRE[4] = "test"; PRE[5] = "example"; PRE[6] = "xn--p1ai"; PRE[7] = "b2";
    long nrows = RT_PUNY.n; if (!mc_thorough) nrows = RT_PUNY.n;   /* quick covers every row too: the table is small */
    mc_parallel("rows: every CSV row x 5 case variants x 0-4 preceding labels; near misses; U-labels", nrows, rows_shard, NULL);
    mc_parallel("short: every last label of 1-3 chars", 36, short_shard, NULL);
    mc_parallel("libtable: every row of the library's own tld_list as last label (lower and upper case)", (libtable_rows() + 63) / 64, libtable_shard, NULL);
#else
    mc_parallel("reserved: 8 suffixes x preceding label length 0..63 x case patterns x 1-3 labels", 8 * 64, res_shard, NULL);
    mc_parallel("reserved names followed by one more label of every length 1..63, by table rows, reserved words, two labels; 5 fronts", 8, trailing_shard, NULL);
    mc_parallel("neighbours: one-edit neighbours of the 8 suffixes x 9 prefixes x 2 cases", 8, neigh_shard, NULL);
#endif
    if (corpus_load()) return 2;
    mc_parallel("embed: every string compiled into the library objects as last label, second-level label, and every ordered pair as the last two labels", corpus_shards(CP_EMBED), embed_shard, NULL);
    mc_parallel("depth: 24 suffixes behind every sequence of 0-4 labels over {a,test,example,com,xn--p1ai,invalid} and behind 5..126 one-letter labels", corpus_shards(CP_DEPTH), depth_shard, NULL);
    return mc_finish();
}
