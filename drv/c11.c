/* c11.c - C11 (table part): the compiled TLD table answers exactly as data/punycode.csv dictates.
 * Complete enumeration of a finite artefact:
 *   rows      every CSV row looked up through is_tld (5 case variants) and compared with tld_list[] entry by entry
 *   members   table entries: lower-case ASCII A-labels, length == strlen+1, no duplicates, same order/count as the CSV
 *   nonrows   every label of 1-3 chars over [a-z0-9] (+ '-' inside), every one-edit neighbour of every row
 *   files     tld-domains.txt line i == U-label.U-label of raw.csv row i; raw.csv row i converts (IDNA2008) to punycode.csv row i
 */
#include <fcntl.h>
#include <unistd.h>
#include "../mc/mc.h"
#include "../ref/ref_tld.h"
#include <eav.h>
#include <eav/auto_tld.h>
#include <idn2.h>

static int TABN;
static int C_ROWS, C_NONROWS, C_FILES, C_MEMBER, C_HIT, C_MISS;

static void lookup_check(const char *sub, const char *lab, size_t n) {
    char buf[300]; if (n >= sizeof buf) return;
    memcpy(buf, lab, n); buf[n] = 0;
    mc_current(sub, "", buf, n);
    int exp = rt_lookup(&RT_PUNY, buf, n);
    int got = is_tld(buf, buf + n);
    MC_ADD(C_EVAL, 1);
    if (exp) MC_ADD(C_HIT, 1); else MC_ADD(C_MISS, 1);
    if (exp && got != exp)
        mc_violation(sub, got < 0 ? "listed-label-not-found" : "listed-label-wrong-class", "", "", buf, n, "CSV class %s(%d) but is_tld returned %d", rt_name[exp], exp, got);
    if (!exp && got != -EEAV_TLD_INVALID)
        mc_violation(sub, "unlisted-label-found", "", "", buf, n, "label is not in punycode.csv but is_tld returned %d", got);
}

/* the same answer through the address validators: a row's label as the last label of x@a.<label>, TLD check on, must come back with the
 * CSV class in every mode (a pre-filter in front of the table walk must not hide a row) */
static int C_VIAEMAIL;
static void email_check(const char *sub, const char *v, size_t n) {
    typedef eav_result_t *(*email_fn)(const char *, size_t, bool);
    static const email_fn EM[4] = { is_822_email, is_5321_email, is_5322_email, is_6531_email };
    static const char *const MN[4] = { "822", "5321", "5322", "6531" };
    /* the label in front of the row must not matter (unless the two together are a reserved name): a plain label, reserved words, another TLD, the row itself */
    /* ... and every proper prefix and suffix of the reserved second-level word: a reserved-name shortcut that compares too few characters hides the row behind it */
    static const char *const FRONT[] = { "a", "example", "test", "com", "xn--p1ai", NULL, "e", "ex", "exa", "exam", "examp", "exampl", "examples", "xample", "ample", "le", "EXAMPL", "tes", "est",
        "invalid", "localhost", "local", "onion", "www", "1", "a-b", "x-example", "example-x" };
    enum { NFRONT = sizeof FRONT / sizeof FRONT[0] };
    int exp = rt_lookup(&RT_PUNY, v, n); if (!exp) return;
    for (int f = 0; f < NFRONT; f++) {
        char a[700]; if (2 * n + 16 > sizeof a) return;
        size_t fl; if (FRONT[f]) { fl = strlen(FRONT[f]); memcpy(a + 2, FRONT[f], fl); } else { fl = n; memcpy(a + 2, v, n); }
        a[0] = 'x'; a[1] = '@'; a[2 + fl] = '.'; memcpy(a + 3 + fl, v, n); a[3 + fl + n] = 0; size_t an = 3 + fl + n;
        if (ref_special(a + 2, an - 2)) continue;
        for (int m = 0; m < 4; m++) {
            char cfg[48]; snprintf(cfg, sizeof cfg, "mode=%s front=%d", MN[m], f); mc_current(sub, cfg, v, n);
            eav_result_t *r = EM[m](a, an, true); int rc = r->rc; eav_result_free(r);
            MC_ADD(C_EVAL, 1); MC_ADD(C_VIAEMAIL, 1);
            if (rc != exp) { char w[64]; snprintf(w, sizeof w, "row-through-is_%s_email:%s", MN[m], rc < 0 ? "not-found" : "wrong-class");
                mc_violation(sub, w, "", cfg, v, n, "CSV class %s(%d) but is_%s_email(%s, tld on) returned %d", rt_name[exp], exp, MN[m], a, rc); }
        }
    }
}

static void rows_shard(long shard, void *arg) {
    (void)arg; rt_row_t *r = &RT_PUNY.row[shard]; size_t n = strlen(r->domain); char v[300];
    if (n >= sizeof v) return;
    if (r->cls <= 0) mc_violation("rows", "csv-unknown-type", "", "", r->domain, n, "unknown type '%s'", r->type);
    for (int variant = 0; variant < 5; variant++) {
        for (size_t i = 0; i < n; i++) {
            int c = r->domain[i];
            switch (variant) {
            case 1: c = toupper(c); break;
            case 2: c = i == 0 ? toupper(c) : c; break;
            case 3: c = (i % 2) ? toupper(c) : c; break;
            case 4: c = i == n - 1 ? toupper(c) : c; break;
            }
            v[i] = (char)c;
        }
        lookup_check("rows", v, n); MC_ADD(C_ROWS, 1);
        email_check("viaemail", v, n);
    }
    /* table entry i <-> row i */
    if (shard >= TABN) { mc_violation("members", "table-shorter-than-csv", "", "", r->domain, n, "tld_list has %d entries, row %ld has none", TABN, shard); return; }
    const tld_t *t = &tld_list[shard];
    MC_ADD(C_MEMBER, 1);
    if (t->domain == NULL) { mc_violation("members", "table-shorter-than-csv", "", "", r->domain, n, "tld_list ends before row %ld", shard); return; }
    if (strcmp(t->domain, r->domain) != 0) mc_violation("members", "entry-differs-from-row", "", "", r->domain, n, "tld_list[%ld] is '%s'", shard, t->domain);
    if (t->length != strlen(t->domain) + 1) mc_violation("members", "entry-length-field", "", "", t->domain, strlen(t->domain), "length field %zu != strlen+1", t->length);
    if (t->type != r->cls) mc_violation("members", "entry-class", "", "", t->domain, strlen(t->domain), "tld_list class %d, CSV rule gives %d", t->type, r->cls);
    for (const char *p = t->domain; *p; p++)
        if (!((*p >= 'a' && *p <= 'z') || (*p >= '0' && *p <= '9') || *p == '-'))
            { mc_violation("members", "entry-not-lowercase-a-label", "", "", t->domain, strlen(t->domain), "character 0x%02x", (unsigned char)*p); break; }
    /* duplicates (in the table and in the CSV) */
    for (long j = 0; j < shard; j++) {
        if (strcasecmp(tld_list[j].domain, t->domain) == 0) mc_violation("members", "duplicate-entry", "", "", t->domain, strlen(t->domain), "entries %ld and %ld", j, shard);
        if (strcasecmp(RT_PUNY.row[j].domain, r->domain) == 0) mc_violation("members", "duplicate-csv-row", "", "", r->domain, n, "rows %ld and %ld", j, shard);
    }
    if (shard == RT_PUNY.n - 1 && TABN > RT_PUNY.n)
        mc_violation("members", "table-longer-than-csv", "", "", tld_list[shard + 1].domain, strlen(tld_list[shard + 1].domain), "extra entry after the last CSV row");
    /* one-edit neighbours of the row */
    static const char AL[] = "abcdefghijklmnopqrstuvwxyz0123456789-";
    for (size_t p = 0; p < n; p++) {                      /* deletion, substitution */
        memcpy(v, r->domain, p); memcpy(v + p, r->domain + p + 1, n - p - 1);
        if (n > 1) { lookup_check("nonrows-edit", v, n - 1); MC_ADD(C_NONROWS, 1); }
        for (const char *a = AL; *a; a++) { memcpy(v, r->domain, n); v[p] = *a; lookup_check("nonrows-edit", v, n); MC_ADD(C_NONROWS, 1); }
    }
    for (size_t p = 0; p < n; p++) for (int b = 1; b < 256; b++) {         /* every byte value at every position (case folding must not alias anything else) */
        if (b == (unsigned char)r->domain[p]) continue;
        memcpy(v, r->domain, n); v[p] = (char)b; lookup_check("nonrows-anybyte", v, n); MC_ADD(C_NONROWS, 1);
    }
    for (size_t p = 0; p <= n; p++) for (const char *a = AL; *a; a++) {   /* insertion (includes every one-char extension at either end) */
        memcpy(v, r->domain, p); v[p] = *a; memcpy(v + p + 1, r->domain + p, n - p);
        lookup_check("nonrows-edit", v, n + 1); MC_ADD(C_NONROWS, 1);
    }
    for (size_t p = 1; p < n; p++) { lookup_check("nonrows-prefix", r->domain, p); lookup_check("nonrows-suffix", r->domain + p, n - p); MC_ADD(C_NONROWS, 2); }
}

static void short_shard(long shard, void *arg) {
    (void)arg; static const char AL[] = "abcdefghijklmnopqrstuvwxyz0123456789"; char v[4];
    v[0] = AL[shard]; lookup_check("nonrows-short", v, 1); MC_ADD(C_NONROWS, 1);
    for (int b = 0; b < 36; b++) {
        v[1] = AL[b]; lookup_check("nonrows-short", v, 2); MC_ADD(C_NONROWS, 1);
        for (int c = 0; c < 36; c++) { v[2] = AL[c]; lookup_check("nonrows-short", v, 3); MC_ADD(C_NONROWS, 1); }
    }
    for (int c = 0; c < 36; c++) { v[1] = '-'; v[2] = AL[c]; lookup_check("nonrows-short", v, 3); MC_ADD(C_NONROWS, 1); }
}

static rt_csv_t RAW;
static char **TLDTXT; static int NTXT;
static void files_shard(long shard, void *arg) {
    (void)arg; rt_row_t *u = &RAW.row[shard], *a = &RT_PUNY.row[shard];
    MC_ADD(C_FILES, 1); MC_ADD(C_EVAL, 1);
    char exp[600]; snprintf(exp, sizeof exp, "%s.%s", u->domain, u->domain);
    if (shard >= NTXT) mc_violation("files", "tld-domains-missing-line", "", "", exp, strlen(exp), "tld-domains.txt has only %d lines", NTXT);
    else if (strcmp(TLDTXT[shard], exp) != 0) mc_violation("files", "tld-domains-line-differs", "", "", exp, strlen(exp), "line %ld is '%s'", shard + 1, TLDTXT[shard]);
    if (strcmp(u->type, a->type) || strcmp(u->manager, a->manager))
        mc_violation("files", "raw-vs-punycode-row", "", "", u->domain, strlen(u->domain), "type/manager differ between raw.csv and punycode.csv at row %ld", shard + 2);
    char *conv = NULL;
    int rc = idn2_to_ascii_8z(u->domain, &conv, IDN2_NONTRANSITIONAL);
    if (rc != IDN2_OK || strcasecmp(conv, a->domain) != 0)
        mc_violation("files", "raw-u-label-does-not-convert-to-punycode-row", "", "", u->domain, strlen(u->domain), "idn2 rc=%d gives '%s', punycode.csv has '%s'", rc, conv ? conv : "(null)", a->domain);
    if (conv) free(conv);
    /* the domain of tld-domains.txt is found, through is_tld on the converted label */
    lookup_check("files", a->domain, strlen(a->domain));
}

static int do_replay(void) {
    mc_replay_t r; if (mc_load_replay(mc_replay, &r)) return 2;
    mc_replay_hit = 0;
    if (!strncmp(r.sub, "viaemail", 8)) email_check(r.sub, (char *)r.in, (size_t)r.len);
    else if (!strncmp(r.sub, "rows", 4) || !strncmp(r.sub, "nonrows", 7)) lookup_check(r.sub, (char *)r.in, (size_t)r.len);
    else {   /* members / files: re-run the shard that owns this domain */
        char d[600]; memcpy(d, r.in, (size_t)r.len); d[r.len] = 0; char *dot = strchr(d, '.'); if (dot && !strncmp(r.sub, "files", 5)) *dot = 0;
        for (int i = 0; i < RT_PUNY.n; i++) {
            if (!strcmp(RT_PUNY.row[i].domain, d) || (i < RAW.n && !strcmp(RAW.row[i].domain, d)) || (i < TABN && !strcmp(tld_list[i].domain, d))) {
                if (!strncmp(r.sub, "files", 5)) files_shard(i, NULL); else rows_shard(i, NULL);
            }
        }
    }
    printf("replay %s: %s\n", mc_replay, mc_replay_hit ? "VIOLATION reproduced" : "no violation");
    return mc_replay_hit ? 1 : 0;
}

int main(int argc, char **argv) {
    mc_init(argc, argv, "C11");
    C_ROWS = mc_counter("row_lookups"); C_NONROWS = mc_counter("non_row_lookups"); C_FILES = mc_counter("file_rows"); C_MEMBER = mc_counter("table_entries_checked");
    C_HIT = mc_counter("expected_listed"); C_VIAEMAIL = mc_counter("row_lookups_through_address_validators"); C_MISS = mc_counter("expected_unlisted");
    if (rt_load()) return 2;
    while (tld_list[TABN].domain) TABN++;
    char p[1024]; snprintf(p, sizeof p, "%s/data/raw.csv", rt_repo());
    if (rt_read_csv(p, &RAW, 1)) return 2;
    snprintf(p, sizeof p, "%s/data/tld-domains.txt", rt_repo());
    FILE *f = fopen(p, "r"); if (!f) { perror(p); return 2; }
    TLDTXT = calloc(8192, sizeof *TLDTXT); char line[1024];
    while (fgets(line, sizeof line, f) && NTXT < 8192) { size_t l = strlen(line); while (l && (line[l - 1] == '\n' || line[l - 1] == '\r')) line[--l] = 0; TLDTXT[NTXT++] = strdup(line); }
    fclose(f);
    if (mc_replay) return do_replay();
    if (RT_MALFORMED) mc_violation("noreplay-files", "csv:malformed-record", "", "", "", 0, "%s: record at line %d has an unescaped '\"' inside a quoted field (%d such quotes in the CSV files): a strict CSV reader - Text::CSV as the generators use it - stops there and silently drops the rest of the table", RT_MALFORMED_FILE, RT_MALFORMED_LINE, RT_MALFORMED);
    if (RAW.n != RT_PUNY.n) mc_violation("noreplay-files", "raw-vs-punycode-rowcount", "", "", "", 0, "raw.csv has %d rows, punycode.csv %d", RAW.n, RT_PUNY.n);
    if (NTXT != RT_PUNY.n) mc_violation("noreplay-files", "tld-domains-linecount", "", "", "", 0, "tld-domains.txt has %d lines, punycode.csv %d rows", NTXT, RT_PUNY.n);
    mc_extra_add("\"csv_rows\":%d,\"raw_rows\":%d,\"tld_domains_lines\":%d", RT_PUNY.n, RAW.n, NTXT);
#ifdef _DEBUG
    /* the debug build's trace output (printf from inside the library) goes to /dev/null while the generators run */
    fflush(stdout); int saved_out = dup(1); { int dn = open("/dev/null", O_WRONLY); if (dn >= 0) { dup2(dn, 1); close(dn); } }
#endif
    mc_parallel("rows+members+edit-neighbours: every CSV row", RT_PUNY.n, rows_shard, NULL);
    mc_parallel("nonrows: every label of 1-3 chars over [a-z0-9] (+x-y)", 36, short_shard, NULL);
    mc_parallel("files: raw.csv / punycode.csv / tld-domains.txt row by row", RAW.n < RT_PUNY.n ? RAW.n : RT_PUNY.n, files_shard, NULL);
#ifdef _DEBUG
    fflush(stdout); dup2(saved_out, 1); close(saved_out);
#endif
    /* distinct non-trivial = lookups whose expected answer is 'listed' (distinct rows x variants) + unlisted neighbours; measured */
    mc_sh->ctr[C_NONTRIV] = mc_sh->ctr[C_ROWS] + mc_sh->ctr[C_FILES];
    return mc_finish();
}
