/* c04.c - C04: host-name domains, E-INPUT exploration against ref_domain().
 *   L1  all strings over {a,Z,1,-,.,_,!,0x80} up to N tokens
 *   L2  base strings x every position x every byte 0x01..0xFF (insert + substitute), adjacent byte pairs
 *   L3  label-length / total-length counters: every label length 0..70 in every position of 1..5-label
 *       domains; every total length 235..262 with/without root dot; hyphen at every position
 * Contexts: is_ascii_domain, is_{822,5321,5322}_email("x@D", false), is_utf8_domain / is_6531_email.
 */
#include "corpus.h"
#include "../ref/ref_idn.h"
#include <eav.h>
#include <idn2.h>

#ifndef REF_OPTS
#define REF_OPTS 0
#endif

static int C_L3ACC, C_L3REJ, C_L1, C_L2, C_L3, C_ACC, C_REJ, C_IDN, C_6531EXACT;

typedef eav_result_t *(*email_fn)(const char *, size_t, bool);
static email_fn EMAIL[4] = { is_822_email, is_5321_email, is_5322_email, is_6531_email };
static const char *MN[4] = { "822", "5321", "5322", "6531" };

static const char *why_str(int whyset, int rc, int exp) {
    static char w[72];
    static const char *nm[] = { "ok", "empty", "too-long", "empty-label", "label-too-long", "hyphen", "bad-char", "numeric" };
    if (exp == R_ACC) { snprintf(w, sizeof w, "rejects-valid:rc=%d", rc); return w; }
    int l = snprintf(w, sizeof w, "accepts-invalid:");
    for (int i = 1; i < 8; i++) if (whyset & (1 << i)) l += snprintf(w + l, sizeof w - (size_t)l, "%s+", nm[i]);
    return w;
}

static int expect_6531(const unsigned char *d, size_t n, int asciiv) {
    unsigned long c0 = ref_idn_calls;
    int v = ref_expect_6531(d, n, asciiv, REF_OPTS);
    MC_ADD(C_IDN, ref_idn_calls - c0);
    return v;
}

static void check_domain(const char *sub, const unsigned char *d, size_t n) {
    if (n + 4 > MC_CASEMAX) return;
    char buf[MC_CASEMAX + 8];
    mc_current(sub, "", d, n);
    int whyset;
    int exp = ref_domain_why(d, n, REF_OPTS, &whyset);
    MC_ADD(exp == R_ACC ? C_ACC : C_REJ, 1);
    if (sub[0] == 'L' && sub[1] == '3') MC_ADD(exp == R_ACC ? C_L3ACC : C_L3REJ, 1);
    memcpy(buf, d, n); buf[n] = 0;
    int rc = is_ascii_domain(buf, buf + n);
    MC_ADD(C_EVAL, 1);
    if ((rc == 0) != (exp == R_ACC))
        mc_violation(sub, why_str(whyset, rc, exp), "", "ctx=is_ascii_domain", d, n, "is_ascii_domain: reference %s, library rc=%d", exp == R_ACC ? "ACCEPT" : "REJECT", rc);
    if (n == 0) {   /* the empty domain handed to the IDN validator directly: rejected with a negative code, both policies */
        for (int t = 0; t < 2; t++) {
            int ir0 = 0, rc0 = is_utf8_domain(&ir0, (const char *)buf, (const char *)buf, t); MC_ADD(C_EVAL, 1);
            if (rc0 >= 0) mc_violation(sub, "utf8dom:accepts-empty", "", "ctx=is_utf8_domain", d, n, "is_utf8_domain(empty, tld=%d) returned %d", t, rc0);
        }
    }
    if (n == 0 || d[0] == '[') return;
    int hasat = 0; for (size_t i = 0; i < n; i++) if (d[i] == '@') hasat = 1;
    if (hasat) return;
    /* through the address validators */
    int exp6 = expect_6531(d, n, exp);
    if (exp6 == exp) MC_ADD(C_6531EXACT, 1);
    /* the domain verdict must not depend on the local part in front of it: the length generators (L3*) also run behind a maximal local part
     * of 64 octets (a limit on the whole address would show there and nowhere else) */
    int nlp = (sub[0] == 'L' && sub[1] == '3' && n + 70 < sizeof buf) ? 2 : 1;
    for (int lpv = nlp - 1; lpv >= 0; lpv--) {
    size_t off = lpv ? 65 : 2;
    if (lpv) { memset(buf, 'q', 64); buf[64] = '@'; } else { buf[0] = 'x'; buf[1] = '@'; }
    memcpy(buf + off, d, n); buf[n + off] = 0;
    for (int m = 0; m < 4; m++) {
        eav_result_t *r = EMAIL[m](buf, n + off, false);
        int e = (m == 3) ? exp6 : exp;
        MC_ADD(C_EVAL, 1);
        if ((r->rc == 0) != (e == R_ACC)) {
            char cfg[32], w[96]; snprintf(cfg, sizeof cfg, "ctx=email mode=%s lp=%d", MN[m], lpv ? 64 : 1);
            snprintf(w, sizeof w, "%s:%s", MN[m], why_str(whyset, r->rc, e));
            mc_violation(sub, w, "", cfg, d, n, "is_%s_email(x@D, tld off): reference %s, library rc=%d idn_rc=%d", MN[m], e == R_ACC ? "ACCEPT" : "REJECT", r->rc, r->idn_rc);
        }
        if (r->rc == 0 && !r->is_domain)
            mc_violation(sub, "accepted-without-is_domain", "", "ctx=email", d, n, "mode %s accepted a host name but is_domain is not set", MN[m]);
        eav_result_free(r);
    }
    }
    /* an invalid domain makes the address invalid WHATEVER stands in front of the '@': a local part that opens a bracket, quote or comment
     * which the domain's last byte would close (<x@a.b> (x@a.b) "x@a.b" ...) is the shape a tolerant front end strips before validating */
    if (!strcmp(sub, "L2") && n + 8 < sizeof buf) {
        char ob[MC_CASEMAX + 8];
        static const char OPEN[] = "<([{\"'`:;,!#$%&*+-/=?^_|~ \t\x01\x7f";
        for (int oi = 0; oi < (mc_thorough ? 255 : (int)sizeof OPEN - 1); oi++) {
            ob[0] = mc_thorough ? (char)(oi + 1) : OPEN[oi]; ob[1] = 'x'; ob[2] = '@'; memcpy(ob + 3, d, n); ob[n + 3] = 0;
            if (ob[0] == '@') continue;
            for (int m = 0; m < 4; m++) {
                int e = (m == 3) ? exp6 : exp; if (e == R_ACC || e == R_ANY) continue;
                eav_result_t *r = EMAIL[m](ob, n + 3, false); MC_ADD(C_EVAL, 1);
                if (r->rc == 0) { char cfg[40], w[96]; snprintf(cfg, sizeof cfg, "ctx=opener mode=%s open=%d", MN[m], (unsigned char)ob[0]); snprintf(w, sizeof w, "%s:accepted-although-the-domain-is-invalid(local part opens with 0x%02x)", MN[m], (unsigned char)ob[0]);
                    mc_violation(sub, w, "", cfg, d, n, "is_%s_email(%cx@D, tld off) accepts, but D is not a valid domain (reference REJECT)", MN[m], ob[0] >= 0x20 && ob[0] < 0x7f ? ob[0] : '?'); }
                eav_result_free(r);
            }
        }
    }
    /* is_utf8_domain directly (buf holds x@D here: the short local part ran last) */
    int ir = 0;
    int rc8 = is_utf8_domain(&ir, buf + 2, buf + 2 + n, false);
    MC_ADD(C_EVAL, 1);
    if ((rc8 == 0) != (exp6 == R_ACC))
        mc_violation(sub, exp6 == R_ACC ? "utf8dom:rejects-valid" : "utf8dom:accepts-invalid", "", "ctx=is_utf8_domain", d, n,
                     "is_utf8_domain(tld off): reference %s, library rc=%d idn_rc=%d", exp6 == R_ACC ? "ACCEPT" : "REJECT", rc8, ir);
}

/* ---------- L1 ---------- */
static const mc_tok_t SIGC[] = { MC_TOK("a"), MC_TOK("Z"), MC_TOK("1"), MC_TOK("-"), MC_TOK("."), MC_TOK("_"), MC_TOK("!"), MC_TOK("\x80") };
#define NSIGC 8
static void l1_cb(const unsigned char *s, size_t n, int ntok, void *arg) {
    (void)arg; (void)ntok;
    check_domain("L1", s, n); MC_ADD(C_L1, 1);
    /* non-trivial: at least one dot or hyphen and every label non-empty so far (structure is exercised) */
    if (n >= 2) { int st = 0; for (size_t i = 0; i < n; i++) if (s[i] == '.' || s[i] == '-') st = 1; if (st) MC_ADD(C_NONTRIV, 1); }
}
static mc_enum_t L1E;
static void l1_shard(long shard, void *arg) { (void)arg; mc_enum_t e = L1E; mc_enum_shard(&e, shard); }

/* ---------- L2 ---------- */
static const char *const BASES[] = { "a", "ab", "a.b", "ab.cd", "a-b", "a-b.c-d", "a.b.c", "a1.b2", "1.a", "a.1", "1", "1.2", "12.34.56",
    "a.", "a.b.", "ab-cd.ef.", "xn--p1ai", "a--b", "a.b-c.d", "A.B", "0a", "a0", "-", ".", "" };
#define NBASES ((int)(sizeof BASES / sizeof BASES[0]))
static void l2_shard(long shard, void *arg) {
    (void)arg;
    const unsigned char *b = (const unsigned char *)BASES[shard]; size_t bl = strlen(BASES[shard]);
    unsigned char t[64];
    check_domain("L2", b, bl); MC_ADD(C_L2, 1);
    for (size_t p = 0; p <= bl; p++) for (int x = 1; x < 256; x++) {
        memcpy(t, b, p); t[p] = (unsigned char)x; memcpy(t + p + 1, b + p, bl - p);
        check_domain("L2", t, bl + 1); MC_ADD(C_L2, 1);                    /* insertion */
        if (p < bl) { memcpy(t + p + 1, b + p + 1, bl - p - 1); check_domain("L2", t, bl); MC_ADD(C_L2, 1); }  /* substitution */
    }
    /* adjacent byte pairs inserted at every position */
    for (size_t p = 0; p <= bl; p++) for (int x = 1; x < 256; x++) for (int y = 1; y < 256; y++) {
        memcpy(t, b, p); t[p] = (unsigned char)x; t[p + 1] = (unsigned char)y; memcpy(t + p + 2, b + p, bl - p);
        check_domain("L2pair", t, bl + 2); MC_ADD(C_L2, 1);
    }
}

/* ---------- L3 ---------- */
static size_t put_label(unsigned char *o, int len, int kind) {
    /* kind 0: letters, 1: digits, 2: letters with hyphen inside, 3: upper-case */
    for (int i = 0; i < len; i++) o[i] = (unsigned char)(kind == 1 ? '0' + i % 10 : kind == 3 ? 'A' + i % 26 : 'a' + i % 26);
    if (kind == 2 && len >= 3) o[len / 2] = '-';
    return (size_t)len;
}
/* shard = (nlabels 1..5, position, label length 0..70) */
static void l3_labels(long shard, void *arg) {
    (void)arg;
    int len = (int)(shard % 71); shard /= 71;
    int pos = (int)(shard % 5); int nl = (int)(shard / 5) + 1;
    if (pos >= nl) return;
    unsigned char t[600];
    for (int kind = 0; kind < 4; kind++) for (int root = 0; root < 2; root++) for (int other = 1; other <= 63; other += (other < 3 ? 1 : 30)) {
        size_t l = 0;
        for (int i = 0; i < nl; i++) {
            if (i) t[l++] = '.';
            l += put_label(t + l, i == pos ? len : other, i == pos ? kind : 0);
        }
        if (root) t[l++] = '.';
        check_domain("L3label", t, l); MC_ADD(C_L3, 1);
    }
    /* one hyphen at every position of the varied label */
    /* (label lengths around the limit go to 70: a hyphen as 64th character of a longer label steps a counter over the limit) */
    if (len >= 1 && (len <= 5 || len >= 58)) for (int h = 0; h < len; h++) {
        size_t l = 0;
        for (int i = 0; i < nl; i++) {
            if (i) t[l++] = '.';
            size_t s0 = l; l += put_label(t + l, i == pos ? len : 3, 0);
            if (i == pos) t[s0 + (size_t)h] = '-';
        }
        check_domain("L3hyphen", t, l); MC_ADD(C_L3, 1);
        t[l++] = '.'; check_domain("L3hyphen", t, l); MC_ADD(C_L3, 1);
    }
    /* a RUN of 2-4 hyphens at every position (xn--..., a---b): a scanner that steps over the run at once must still count every character of it */
    if (len >= 4 && (len <= 8 || len >= 58)) for (int run = 2; run <= 4; run++) for (int h = 1; h + run < len; h++) {
        size_t l = 0;
        for (int i = 0; i < nl; i++) {
            if (i) t[l++] = '.';
            size_t s0 = l; l += put_label(t + l, i == pos ? len : 3, 0);
            if (i == pos) { for (int k = 0; k < run; k++) t[s0 + (size_t)(h + k)] = '-'; if (h == 2 && run == 2) { t[s0] = 'x'; t[s0 + 1] = 'n'; } }
        }
        check_domain("L3hyphenrun", t, l); MC_ADD(C_L3, 1);
        t[l++] = '.'; check_domain("L3hyphenrun", t, l); MC_ADD(C_L3, 1);
    }
}
/* total length: shard = total 235..262 ; last label length 1..63 ; with/without root dot; filler labels of 63/62/1 */
static void l3_total(long shard, void *arg) {
    (void)arg;
    int total = 235 + (int)shard;
    unsigned char t[600];
    for (int lastlen = 1; lastlen <= 63; lastlen++) for (int fill = 1; fill <= 63; fill += (fill < 2 ? 1 : 31)) for (int root = 0; root < 2; root++) {
        /* build: labels of 'fill' chars until the remaining room is taken by a shorter label, then the last label */
        int room = total - lastlen - 1;            /* for the preceding labels incl. their dots except the final one */
        if (room < 1) continue;
        size_t l = 0; int left = room;
        while (left > 0) {
            int take = left >= fill + 1 + 1 ? fill : left;      /* keep >= 1 for a following label */
            if (take > 63) take = 63;
            l += put_label(t + l, take, 0); left -= take;
            if (left > 0) { t[l++] = '.'; left--; if (left == 0) { /* trailing dot consumed the room: make the label one longer */ l--; t[l++] = 'z'; } }
        }
        t[l++] = '.';
        l += put_label(t + l, lastlen, 0);
        if (root) t[l++] = '.';
        check_domain("L3total", t, l); MC_ADD(C_L3, 1);
    }
}

/* label COUNT: n equal labels of k characters, n = 1..140 (k = 1: up to and past the 127 labels that fit in 253 characters),
 * k = 1..63 while the name stays under 300 characters; with/without root dot; last label optionally one character longer */
static void l3_count(long shard, void *arg) {
    (void)arg; int k = (int)shard + 1;
    unsigned char t[700];
    for (int n = 1; n <= 140; n++) {
        if (n * (k + 1) > 300) break;
        for (int longer = 0; longer < 2; longer++) for (int root = 0; root < 2; root++) {
            size_t l = 0;
            for (int i = 0; i < n; i++) { if (i) t[l++] = '.'; l += put_label(t + l, k + (longer && i == n - 1), 0); }
            if (root) t[l++] = '.';
            check_domain("L3count", t, l); MC_ADD(C_L3, 1);
        }
    }
}

/* all-numeric names: n = 1..12 labels of 1-3 digits (with and without root dot) are refused whatever n is; one letter or hyphen in any one
 * label lifts the rule (shard = n) */
static void l3_numeric(long shard, void *arg) {
    (void)arg; int n = (int)shard + 1; unsigned char t[128];
    static const char *const DG[] = { "1", "0", "42", "255", "007" };
    for (int dg = 0; dg < 5; dg++) for (int root = 0; root < 2; root++) for (int dev = -1; dev < n; dev++) for (int dk = 0; dk < (dev < 0 ? 1 : 3); dk++) {
        size_t l = 0;
        for (int i = 0; i < n; i++) { if (i) t[l++] = '.';
            if (i == dev) { const char *d = dk == 0 ? "a" : dk == 1 ? "1a" : "1-1"; size_t dl = strlen(d); memcpy(t + l, d, dl); l += dl; }
            else { const char *d = DG[(dg + i) % 5]; size_t dl = strlen(d); memcpy(t + l, d, dl); l += dl; } }
        if (root) t[l++] = '.';
        check_domain("L3numeric", t, l); MC_ADD(C_L3, 1);
    }
}

/* mode 6531: long U-label domains (UTF-8 byte length crosses 255 while the A-label form is within / beyond 253) */
static void l3_ulabel(long shard, void *arg) {
    (void)arg; int nl = (int)shard + 1;
    for (int per = 8; per <= 56; per++) for (int three = 0; three < 2; three++) for (int root = 0; root < 2; root++) {
        unsigned char big[1500]; size_t l = 0;
        for (int k = 0; k < nl; k++) {
            for (int i = 0; i < per; i++) {
                if (three) { big[l++] = 0xe4; big[l++] = 0xb8; big[l++] = (unsigned char)(0x80 + (i * 7 + k) % 48); }
                else { big[l++] = 0xd0; big[l++] = (unsigned char)(0xb0 + (i + k) % 16); }
            }
            big[l++] = '.';
        }
        memcpy(big + l, "\xd1\x80\xd1\x84", 4); l += 4;
        if (root) big[l++] = '.';
        if (l < 1000) { check_domain("L3ulabel", big, l); MC_ADD(C_L3, 1); }
    }
}

static int L5PH;
static void l5_emit(const unsigned char *s, size_t n, void *arg) { (void)arg; if (n > 2 && s[0] == 'x' && s[1] == '@') { check_domain("L5corpus", s + 2, n - 2); MC_ADD(C_L3, 1); } }
static void l5_shard(long shard, void *arg) { (void)arg; corpus_run(L5PH, shard, l5_emit, NULL); }

static int do_replay(void) {
    mc_replay_t r; if (mc_load_replay(mc_replay, &r)) return 2;
    mc_replay_hit = 0;
    check_domain(r.sub, r.in, (size_t)r.len);
    printf("replay %s: %s\n", mc_replay, mc_replay_hit ? "VIOLATION reproduced" : "no violation");
    return mc_replay_hit ? 1 : 0;
}

int main(int argc, char **argv) {
    mc_init(argc, argv, "C04");
    C_L1 = mc_counter("L1_strings"); C_L2 = mc_counter("L2_strings"); C_L3 = mc_counter("L3_strings");
    C_ACC = mc_counter("ref_accept"); C_REJ = mc_counter("ref_reject"); C_IDN = mc_counter("harness_idn2_conversions");
    C_6531EXACT = mc_counter("mode6531_expected_equals_ascii");
    C_L3ACC = mc_counter("L3_ref_accept"); C_L3REJ = mc_counter("L3_ref_reject");
    if (mc_replay) return do_replay();
    mc_parallel("L2: 25 bases x every position x 255 bytes (+ adjacent pairs)", NBASES, l2_shard, NULL);
    mc_parallel("L3: label length 0..70 x position x 1..5 labels (+hyphen positions)", 5L * 5 * 71, l3_labels, NULL);
    mc_parallel("L3: total length 235..262 x last label 1..63 x root dot", 28, l3_total, NULL);
    mc_parallel("L3: label count: n = 1..140 equal labels of k = 1..63 characters (127 x 1 = 253 included), root dot, last label +1", 63, l3_count, NULL);
    mc_parallel("L3: all-numeric names of 1..12 labels (5 digit spellings, root dot) and the same with one non-numeric label at every position", 12, l3_numeric, NULL);
    mc_parallel("L3: U-label domains of 1..7 labels x 8..56 letters (2- and 3-byte) around the 253/255 limits", 7, l3_ulabel, NULL);
    if (corpus_load()) return 2;
    { static const int PH[] = { CP_LONGIDN, CP_ALTDOT, CP_LABELLEN };
      for (unsigned i = 0; i < 3; i++) { L5PH = PH[i]; char nm5[80]; snprintf(nm5, sizeof nm5, "L5: %.60s", corpus_name(L5PH)); mc_parallel(nm5, corpus_shards(L5PH), l5_shard, NULL); } }
    int N = mc_thorough ? 9 : 7;
    memset(&L1E, 0, sizeof L1E);
    L1E.A = SIGC; L1E.nA = NSIGC; L1E.N = N; L1E.k = 3; L1E.fn = l1_cb;
    char nm[80]; snprintf(nm, sizeof nm, "L1: all strings of <= %d tokens over {a,Z,1,-,.,_,!,0x80}", N);
    mc_parallel(nm, mc_enum_shards(&L1E), l1_shard, NULL);
    return mc_finish();
}
