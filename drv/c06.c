/* c06.c - C06: memory safety / UB / abort / leaks on every input, every public entry point.
 * The corpora of drv/corpus.h (incl. the length ladder up to 64 KiB and every byte at every structural position)
 * are driven through every public function, each input in a FRESH EXACT-SIZE buffer:
 *   default (-fsanitize=address,undefined build): heap buffer of strlen+1 bytes -> ASan/UBSan abort the worker on any
 *       out-of-bounds read/write or undefined behaviour; LeakSanitizer is queried after every shard
 *   -DGUARD (plain build): the string ends on the last byte before a PROT_NONE page, and (second placement) starts
 *       on the first byte after one -> over/under-reads inside uninstrumented libc calls fault
 * A dead worker leaves the input it was executing; the parent reports it with a replay file.
 */
#include "corpus.h"
#include <eav.h>
#include <eav/auto_tld.h>
#include <sys/mman.h>
#ifdef __has_feature
#if __has_feature(address_sanitizer)
#include <sanitizer/lsan_interface.h>
#define HAVE_LSAN 1
#endif
#endif

typedef eav_result_t *(*email_fn)(const char *, size_t, bool);
static email_fn EMAIL[4] = { is_822_email, is_5321_email, is_5322_email, is_6531_email };
typedef int (*part_fn)(const char *, const char *);
static part_fn LOCAL[4] = { is_822_local, is_5321_local, is_5322_local, is_6531_local };
static const EAV_RFC RFC[4] = { EAV_RFC_822, EAV_RFC_5321, EAV_RFC_5322, EAV_RFC_6531 };
static int C_ADDR, C_CALLS, CURPH;
#ifdef ASCII_ONLY      /* MemorySanitizer step: libidn2 is not instrumented, so only the three ASCII modes and the ASCII part validators run */
#define NM 3
#else
#define NM 4
#endif
static volatile long SINKHOLE;

#ifdef GUARD
#define ROCAP (256 * 1024)
static unsigned char *RO;
static unsigned char *PAGES; static size_t PG, NPG = 20;       /* [guard][NPG data pages][guard] */
static void guard_init(void) {
    PG = (size_t)sysconf(_SC_PAGESIZE);
    PAGES = mmap(NULL, PG * (NPG + 2), PROT_READ | PROT_WRITE, MAP_PRIVATE | MAP_ANONYMOUS, -1, 0);
    if (PAGES == MAP_FAILED) { perror("mmap"); exit(2); }
    mprotect(PAGES, PG, PROT_NONE); mprotect(PAGES + PG * (NPG + 1), PG, PROT_NONE);
    RO = mmap(NULL, ROCAP, PROT_READ | PROT_WRITE, MAP_PRIVATE | MAP_ANONYMOUS, -1, 0); if (RO == MAP_FAILED) { perror("mmap"); exit(2); }
}
/* placement 0: terminator is the last byte before the guard page; 1: first byte right after the leading guard page */
static char *place(const unsigned char *s, size_t n, int placement) {
    if (n + 1 > PG * NPG) return NULL;
    char *p = placement == 0 ? (char *)PAGES + PG * (NPG + 1) - (n + 1) : (char *)PAGES + PG;
    memcpy(p, s, n); p[n] = 0;
    return p;
}
static void unplace(char *p) { (void)p; }
#define NPLACE 2
#else
static char *place(const unsigned char *s, size_t n, int placement) { (void)placement; char *p = malloc(n + 1); memcpy(p, s, n); p[n] = 0; return p; }
static void unplace(char *p) { free(p); }
#define NPLACE 1
#endif

static void drive(const char *p, size_t n) {
    long acc = 0;
    for (int m = 0; m < NM; m++) for (int t = 0; t < 2; t++) { eav_result_t *r = EMAIL[m](p, n, t); acc += r->rc; eav_result_free(r); MC_ADD(C_CALLS, 1); }
    /* the object API, object in uninitialised-looking heap memory */
    for (int m = 0; m < NM; m++) {
        eav_t *e = malloc(sizeof *e); memset(e, 0xA5, sizeof *e);
        eav_init(e); e->rfc = RFC[m]; e->tld_check = (m & 1); if (m == 2) e->allow_tld = 0;
        if (eav_setup(e) == 0) { acc += eav_is_email(e, p, n); const char *msg = eav_errstr(e); acc += msg ? msg[0] : 0; acc += eav_is_email(e, p, n); }
        eav_free(e); free(e); MC_ADD(C_CALLS, 3);
    }
    MC_ADD(C_EVAL, 12);
    SINKHOLE += acc;
}
/* part validators on their own exact-size copies: the whole string, the part before the last '@', the part after it,
 * the bracket content, the last label */
static void drive_part(const unsigned char *s, size_t n, int kind) {
    for (int pl = 0; pl < NPLACE; pl++) {
        char *p = place(s, n, pl); if (!p) return;
        long acc = 0;
        if (kind == 0) for (int m = 0; m < NM; m++) acc += LOCAL[m](p, p + n);
        else {
            acc += is_ascii_domain(p, p + n); acc += is_ipv4(p, p + n); acc += is_ipv6(p, p + n); acc += is_ipaddr(p, p + n);
            acc += is_tld(p, p + n); if (n) acc += is_special_domain(p, p + n);
#ifndef ASCII_ONLY
            int ir = 0; acc += is_utf8_domain(&ir, p, p + n, true); acc += is_utf8_domain(&ir, p, p + n, false);
#endif
        }
        MC_ADD(C_CALLS, kind ? 8 : 4); MC_ADD(C_EVAL, kind ? 8 : 4);
        SINKHOLE += acc; unplace(p);
    }
}
#ifdef GUARD
/* "the library writes only to its own result object": inputs are collected in a second region which is then made READ-ONLY as a whole; the
 * whole-address calls and the domain validators run on every collected input - a validator that writes into the caller's string, even if it puts the
 * byte back afterwards, faults there (the batch amortises the mprotect calls) */
static size_t ro_used; static struct { size_t off, n; } ro_item[4096]; static int ro_n;
static void ro_flush(void) {
    if (!ro_n) return;
    mprotect(RO, ROCAP, PROT_READ);
    for (int i = 0; i < ro_n; i++) {
        const char *p = (const char *)RO + ro_item[i].off; size_t n = ro_item[i].n; long acc = 0;
        mc_current(corpus_name(CURPH), "readonly=1", (const unsigned char *)p, n);
        for (int m = 0; m < NM; m++) for (int t = 0; t < 2; t++) { eav_result_t *r = EMAIL[m](p, n, t); acc += r->rc; eav_result_free(r); }
        const char *at = NULL; for (size_t k = n; k > 0; k--) if (p[k - 1] == '@') { at = p + k - 1; break; }
        if (at) { const char *d = at + 1, *e = p + n; acc += is_ascii_domain(d, e); acc += is_special_domain(d, e); acc += is_ipaddr(d, e); const char *dot = e; while (dot > d && dot[-1] != '.') dot--; acc += is_tld(dot, e);
                  for (int m = 0; m < NM; m++) acc += LOCAL[m](p, at); }
        MC_ADD(C_CALLS, 16); MC_ADD(C_EVAL, 16); SINKHOLE += acc;
    }
    mprotect(RO, ROCAP, PROT_READ | PROT_WRITE); ro_used = 0; ro_n = 0;
}
static void ro_add(const unsigned char *s, size_t n) {
    if (n + 1 > ROCAP) return;
    if (ro_used + n + 1 > ROCAP || ro_n == 4096) ro_flush();
    memcpy(RO + ro_used, s, n); RO[ro_used + n] = 0; ro_item[ro_n].off = ro_used; ro_item[ro_n].n = n; ro_n++; ro_used += n + 1;
}
#endif
static void sink(const unsigned char *s, size_t n, void *arg) {
    (void)arg;
    for (size_t i = 0; i < n; i++) if (!s[i]) return;
#ifdef GUARD
    ro_add(s, n);
#endif
    mc_current(corpus_name(CURPH), "", s, n); MC_ADD(C_ADDR, 1);
    for (int pl = 0; pl < NPLACE; pl++) { char *p = place(s, n, pl); if (!p) return; drive(p, n); unplace(p); }
    drive_part(s, n, 0); drive_part(s, n, 1);
    long at = -1; for (long i = (long)n - 1; i >= 0; i--) if (s[i] == '@') { at = i; break; }
    if (at >= 0) {
        drive_part(s, (size_t)at, 0);
        const unsigned char *d = s + at + 1; size_t dn = n - (size_t)at - 1;
        drive_part(d, dn, 1);
        if (dn >= 2 && d[0] == '[') { const unsigned char *rb = memchr(d, ']', dn); size_t cn = rb ? (size_t)(rb - d - 1) : dn - 1; drive_part(d + 1, cn, 1); }
        size_t i = dn; while (i > 0 && d[i - 1] != '.') i--; if (i > 0) drive_part(d + i, dn - i, 1);
        MC_ADD(C_NONTRIV, 1);
    }
    eav_result_free(NULL);
}
static void phase_shard(long shard, void *arg) {
    (void)arg; corpus_run(CURPH, shard, sink, NULL);
#ifdef GUARD
    ro_flush();
#endif
#ifdef HAVE_LSAN
    if (__lsan_do_recoverable_leak_check()) {
        char cfg[64]; snprintf(cfg, sizeof cfg, "phase=%d shard=%ld", CURPH, shard);
        mc_violation("leak", "allocation-not-released", "", cfg, "", 0, "LeakSanitizer reports unreleased allocations after corpus %d shard %ld", CURPH, shard);
    }
#endif
}
/* ---------- api: the object API over mode sequences ----------
 * "no leak" is also a property of what eav_setup does with what the object holds: every sequence of <= 4 set-ups over {822, 5321, 5322, 6531,
 * an invalid value}, a menu of addresses validated after each, eav_free at the end - then nothing may be left allocated (LeakSanitizer's
 * recoverable check after every sequence; ASan/UBSan watch the calls).  shard = sequence number in base 5. */
static void api_shard(long shard, void *arg) {
    (void)arg;
#ifndef ASCII_ONLY
    static const char *const MENU[] = { "user@example.com", "user@host.zzzzq", "\xd0\xb6@\xd0\xbf\xd0\xbe\xd1\x87\xd1\x82\xd0\xb0.\xd1\x80\xd1\x84", "user@xn--zz.com", "user@[192.0.2.1]", "bad..dots@a.org", "", "user@a.museum" };
    static const int RV[5] = { EAV_RFC_822, EAV_RFC_5321, EAV_RFC_5322, EAV_RFC_6531, 77 };
    int seq[4], len = 0; long k = shard; while (len < 4) { seq[len++] = (int)(k % 5); k /= 5; }
    for (int upto = 1; upto <= 4; upto++) {
        if (upto < 4 && seq[upto] != 0) continue;          /* shorter sequences once: when the unused tail is all zeros */
        long acc = 0; eav_t *e = malloc(sizeof *e); memset(e, 0xA5, sizeof *e); eav_init(e);
        for (int i = 0; i < upto; i++) {
            e->rfc = RV[seq[i]]; e->tld_check = (i & 1) == 0;
            int rc = eav_setup(e); MC_ADD(C_CALLS, 1);
            if (rc != 0 && i == 0) break;                     /* never set up successfully: validation is not defined */
            for (unsigned a = 0; a < sizeof MENU / sizeof MENU[0]; a++) { acc += eav_is_email(e, MENU[a], strlen(MENU[a])); const char *m = eav_errstr(e); acc += m ? m[0] : 0; MC_ADD(C_CALLS, 1); MC_ADD(C_EVAL, 1); }
        }
        eav_free(e); free(e); SINKHOLE += acc;
#ifdef HAVE_LSAN
        if (__lsan_do_recoverable_leak_check()) {
            char cfg[64]; snprintf(cfg, sizeof cfg, "shard=%ld upto=%d", shard, upto);
            mc_violation("api", "allocation-not-released-after-a-mode-sequence", "", cfg, "", 0, "LeakSanitizer: blocks left after set-ups %d,%d,%d,%d (first %d used; 4 = invalid value) with validations in between and eav_free", seq[0], seq[1], seq[2], seq[3], upto);
            return;
        }
#endif
    }
#else
    (void)shard;
#endif
}
/* ---------- huge: megabyte-sized addresses ----------
 * Four shapes of 12 MiB (thorough: 1, 8, 12, 64 MiB) - one giant label, valid labels in a name far too long, a giant local part, a giant U-label -
 * through every entry point: anything proportional to the input that the library puts on the stack (a VLA, alloca, recursion) or into a
 * fixed buffer faults here; each (shape, size) is one shard. */
static size_t HUGE_SZ[8]; static int HUGE_NSZ;
static char *huge_build(int shape, size_t sz, size_t *n) {
    char *p = malloc(sz + 64); size_t l = 0;
    switch (shape) {
    case 0: memcpy(p, "x@", 2); memset(p + 2, 'a', sz); memcpy(p + 2 + sz, ".com", 5); l = sz + 6; break;
    case 1: memcpy(p, "x@", 2); memset(p + 2, 'a', sz); for (size_t i = 63; i < sz; i += 64) p[2 + i] = '.'; p[2 + sz - 1] = 'a'; memcpy(p + 2 + sz, ".com", 5); l = sz + 6; break;
    case 2: memset(p, 'a', sz); memcpy(p + sz, "@ok.com", 8); l = sz + 7; break;
    default: memcpy(p, "x@", 2); for (size_t i = 0; i + 1 < sz; i += 2) { p[2 + i] = (char)0xd0; p[3 + i] = (char)0xb6; } sz &= ~(size_t)1; memcpy(p + 2 + sz, ".com", 5); l = sz + 6; break;
    }
    *n = l; return p;
}
static void huge_shard(long shard, void *arg) {
    (void)arg; int shape = (int)(shard % 4); size_t sz = HUGE_SZ[shard / 4], n;
    char cfg[64]; snprintf(cfg, sizeof cfg, "huge=1 shape=%d size=%zu", shape, sz);
    mc_current("huge", cfg, (const unsigned char *)"", 0); MC_ADD(C_ADDR, 1);
    char *p = huge_build(shape, sz, &n);
    drive(p, n);
    const char *at = strrchr(p, '@'); if (at) { const char *d = at + 1; long acc = 0; int ir = 0;
        acc += is_ascii_domain(d, p + n); acc += is_special_domain(d, p + n); (void)ir;
#ifndef ASCII_ONLY
        acc += is_utf8_domain(&ir, d, p + n, true);
#endif
        for (int m = 0; m < NM; m++) acc += LOCAL[m](p, at);
        SINKHOLE += acc; MC_ADD(C_CALLS, 7); MC_ADD(C_EVAL, 7); }
    free(p);
}

static int do_replay(void) {
    mc_replay_t r; if (mc_load_replay(mc_replay, &r)) return 2;
    mc_replay_hit = 0;
    if (!strcmp(r.sub, "huge") || !strcmp(r.sub, "crash:huge")) { HUGE_SZ[0] = (size_t)strtoull(strstr(r.cfg, "size=") + 5, NULL, 10); huge_shard(mc_cfg_int(r.cfg, "shape", 0), NULL); }
    else if (!strcmp(r.sub, "api")) api_shard(mc_cfg_int(r.cfg, "shard", 0), NULL);
    else if (!strcmp(r.sub, "leak")) { CURPH = (int)mc_cfg_int(r.cfg, "phase", 0); phase_shard(mc_cfg_int(r.cfg, "shard", 0), NULL); }
    else { const char *q = r.sub; if (!strncmp(q, "crash:", 6)) q += 6; for (int i = 0; i < CP_N; i++) if (!strncmp(q, corpus_name(i), strlen(q))) CURPH = i; sink(r.in, (size_t)r.len, NULL);
#ifdef GUARD
        ro_flush();
#endif
    }
    printf("replay %s: %s\n", mc_replay, mc_replay_hit ? "VIOLATION reproduced" : "no violation (a crash would have killed this process)");
    return mc_replay_hit ? 1 : 0;
}
int main(int argc, char **argv) {
    mc_init(argc, argv, "C06");
    CORPUS_DEEP = mc_thorough;
    C_ADDR = mc_counter("inputs"); C_CALLS = mc_counter("public_entry_point_calls");
    if (corpus_load()) return 2;
#ifdef GUARD
    guard_init();
#endif
    if (mc_replay) return do_replay();
    { int light = 0; for (int i = 1; i < argc; i++) if (!strcmp(argv[i], "--light")) light = 1;
      if (light) { static const int PL[] = { CP_LOCAL, CP_EMAIL, CP_CROSS, CP_DOMAIN, CP_BYTES, CP_SUBST, CP_POSN, CP_LABELLEN };
          for (unsigned i = 0; i < sizeof PL / sizeof PL[0]; i++) { CURPH = PL[i]; char nm[72]; snprintf(nm, sizeof nm, "%.48s (N=%d)", corpus_name(CURPH), corpus_N(CURPH)); mc_parallel(nm, corpus_shards(CURPH), phase_shard, NULL); }
          return mc_finish(); } }
    for (int ph = 0; ph < CP_N; ph++) { if (ph == CP_SCALARS && !mc_thorough) continue;   /* 1.1M code points x every entry point: thorough tier only (C03 sweeps them every time) */
        CURPH = ph; char nm[72]; snprintf(nm, sizeof nm, "%.48s (N=%d)", corpus_name(ph), corpus_N(ph)); mc_parallel(nm, corpus_shards(ph), phase_shard, NULL); }
    mc_parallel("api: every sequence of <= 4 set-ups over {822, 5321, 5322, 6531, invalid} x 8 addresses after each, eav_free, leak check", 625, api_shard, NULL);
    { HUGE_NSZ = 0; if (mc_thorough) { HUGE_SZ[HUGE_NSZ++] = (size_t)1 << 20; HUGE_SZ[HUGE_NSZ++] = (size_t)8 << 20; }
      HUGE_SZ[HUGE_NSZ++] = (size_t)12 << 20; if (mc_thorough) HUGE_SZ[HUGE_NSZ++] = (size_t)64 << 20;
      mc_parallel(mc_thorough ? "huge: 4 shapes x 1, 8, 12, 64 MiB through every entry point" : "huge: 4 shapes x 12 MiB through every entry point", 4L * HUGE_NSZ, huge_shard, NULL); }
    return mc_finish();
}
