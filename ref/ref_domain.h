/* ref_domain.h - reference for host-name domains (C04), written as a splitter
 * with no running counters, and for address literals (C05) as a small
 * recursive-descent parser.  Three-valued where the statement leaves room. */
#ifndef REF_DOMAIN_H
#define REF_DOMAIN_H
#include "ref_local.h"
#include <string.h>
#include <strings.h>

static int rd_isalnum(int c) { return (c >= '0' && c <= '9') || (c >= 'a' && c <= 'z') || (c >= 'A' && c <= 'Z'); }
static int rd_isdigit(int c) { return c >= '0' && c <= '9'; }
static int rd_ishex(int c) { return rd_isdigit(c) || (c >= 'a' && c <= 'f') || (c >= 'A' && c <= 'F'); }

/* why-codes for diagnostics (C15) */
enum { RD_OK = 0, RD_EMPTY, RD_TOO_LONG, RD_EMPTY_LABEL, RD_LABEL_TOO_LONG, RD_HYPHEN, RD_BADCHAR, RD_NUMERIC };

static int ref_domain_why(const unsigned char *s, size_t n, int opts, int *whyset) {
    int dummy; if (!whyset) whyset = &dummy;
    *whyset = 0;
    if (n == 0) { *whyset |= 1 << RD_EMPTY; return R_REJ; }
    size_t m = n;
    if (m >= 2 && s[m - 1] == '.') m--;                 /* exactly one optional root dot */
    if (m > 253) *whyset |= 1 << RD_TOO_LONG;
    int nondigit = 0;
    size_t i = 0;
    while (i <= m) {
        size_t j = i;
        while (j < m && s[j] != '.') j++;
        size_t L = j - i;                               /* label s[i..j) */
        if (L == 0) *whyset |= 1 << RD_EMPTY_LABEL;
        if (L > 63) *whyset |= 1 << RD_LABEL_TOO_LONG;
        for (size_t k = i; k < j; k++) {
            int c = s[k];
            if (rd_isalnum(c) || ((opts & RO_UNDERSCORE) && c == '_')) { if (!rd_isdigit(c)) nondigit = 1; }
            else if (c == '-') { nondigit = 1; if (k == i || k == j - 1) *whyset |= 1 << RD_HYPHEN; }
            else *whyset |= 1 << RD_BADCHAR;
        }
        i = j + 1;
    }
    if (!nondigit) *whyset |= 1 << RD_NUMERIC;
    return *whyset ? R_REJ : R_ACC;
}
static int ref_domain(const unsigned char *s, size_t n, int opts) { return ref_domain_why(s, n, opts, NULL); }

/* ASCII domain on which IDNA2008 conversion (libidn2, non-transitional) is the identity:
 * lower-case LDH labels, no "xn--" prefix, no "--" in positions 3-4, lengths within limits */
static int ref_idn_transparent(const unsigned char *s, size_t n) {
    if (n == 0 || n > 253) return 0;
    size_t i = 0;
    while (i <= n) {
        size_t j = i; while (j < n && s[j] != '.') j++;
        size_t L = j - i;
        if (L == 0 || L > 63) return 0;
        for (size_t k = i; k < j; k++) { int c = s[k]; if (!((c >= 'a' && c <= 'z') || rd_isdigit(c) || c == '-')) return 0; }
        if (s[i] == '-' || s[j - 1] == '-') return 0;
        if (L >= 4 && s[i + 2] == '-' && s[i + 3] == '-') return 0;
        i = j + 1;
    }
    return 1;
}

/* ---------------- address literals ---------------- */
/* IPv4: perm = four decimal octets of value <= 255 separated by single dots (any digit count);
 *       strict = additionally 1-3 digits per octet and non-zero first octet */
static int ref_ipv4(const unsigned char *s, size_t n, int *strict) {
    int cnt = 0, ok = 1, st = 1; size_t i = 0;
    if (n == 0) { *strict = 0; return 0; }
    while (i <= n) {
        size_t j = i; while (j < n && s[j] != '.') j++;
        size_t L = j - i; unsigned long v = 0;
        if (L == 0) ok = 0;
        for (size_t k = i; k < j; k++) { if (!rd_isdigit(s[k])) { ok = 0; break; } if (v <= 100000) v = v * 10 + (unsigned long)(s[k] - '0'); }
        if (v > 255) ok = 0;
        if (L > 3) st = 0;
        if (cnt == 0 && v == 0) st = 0;
        cnt++;
        i = j + 1;
    }
    if (cnt != 4) ok = 0;
    *strict = ok && st;
    return ok;
}
static int rip_groups(const unsigned char *s, size_t n, int allow_v4_last, int *ngroups, int *v4, int *v4strict) {
    /* s[0..n) = groups separated by single ':'; n == 0 -> zero groups */
    *ngroups = 0; *v4 = 0; *v4strict = 0;
    if (n == 0) return 1;
    size_t i = 0;
    while (i <= n) {
        size_t j = i; while (j < n && s[j] != ':') j++;
        size_t L = j - i; int last = (j == n);
        int hex = (L >= 1 && L <= 4);
        for (size_t k = i; k < j && hex; k++) if (!rd_ishex(s[k])) hex = 0;
        if (hex) (*ngroups)++;
        else if (last && allow_v4_last && ref_ipv4(s + i, L, v4strict)) *v4 = 1;
        else return 0;
        i = j + 1;
    }
    return 1;
}
/* IPv6 text: perm = RFC 4291 section 2.2 (one optional "::" standing for >= 1 group, optional dotted-quad tail);
 *            strict = RFC 5321 4.1.3 (IPv6-full / comp (<= 6 groups) / v4-full (6) / v4-comp (<= 4)), tail strict */
static int ref_ipv6(const unsigned char *s, size_t n, int *strict) {
    *strict = 0;
    /* locate "::" */
    long dc = -1; int ndc = 0;
    for (size_t i = 0; i + 1 < n; i++) if (s[i] == ':' && s[i + 1] == ':') { if (dc < 0) dc = (long)i; ndc++; }
    int g1, g2, v4a, v4b, vs1, vs2;
    if (ndc == 0) {
        if (!rip_groups(s, n, 1, &g1, &v4a, &vs1)) return 0;
        if (n == 0) return 0;
        int total = g1 + (v4a ? 2 : 0);
        if (total != 8) return 0;
        *strict = v4a ? vs1 : 1;
        return 1;
    }
    if (ndc > 1) return 0;       /* two "::" or ":::" */
    size_t ln = (size_t)dc, ro = (size_t)dc + 2, rn = n - ro;
    if (!rip_groups(s, ln, 0, &g1, &v4a, &vs1)) return 0;
    if (!rip_groups(s + ro, rn, 1, &g2, &v4b, &vs2)) return 0;
    int total = g1 + g2 + (v4b ? 2 : 0);
    if (total > 7) return 0;
    if (v4b) *strict = (g1 + g2 <= 4) && vs2;
    else *strict = (g1 + g2 <= 6);
    return 1;
}

enum { RF_NONE = 0, RF_HOST, RF_V4, RF_V6 };
/* bracket content (without the brackets): verdict and family */
static int ref_literal(const unsigned char *s, size_t n, int *family) {
    int st; *family = RF_NONE;
    if (ref_ipv4(s, n, &st)) { *family = RF_V4; return st ? R_ACC : R_ANY; }
    if (ref_ipv6(s, n, &st)) { *family = RF_V6; return R_ANY; }               /* untagged spelling: tolerated */
    if (n > 5 && strncasecmp((const char *)s, "IPv6:", 5) == 0 && ref_ipv6(s + 5, n - 5, &st)) {
        *family = RF_V6;
        return (st && memcmp(s, "IPv6:", 5) == 0) ? R_ACC : R_ANY;
    }
    return R_REJ;
}
/* domain part of an address (everything after the last '@'), ASCII modes */
static int ref_domainpart(const unsigned char *d, size_t n, int opts, int *family) {
    *family = RF_NONE;
    if (n == 0) return R_REJ;
    if (d[0] == '[') {
        if (n < 2 || d[n - 1] != ']') return R_REJ;
        return ref_literal(d + 1, n - 2, family);
    }
    int v = ref_domain(d, n, opts);
    if (v == R_ACC) *family = RF_HOST;
    return v;
}
#endif
