/* ref_idn.h - expected host-name verdict in mode 6531: exact, through an independent
 * IDNA2008 conversion made by the harness itself (DC-6), short-circuited where the
 * conversion is known to be the identity or irrelevant. */
#ifndef REF_IDN_H
#define REF_IDN_H
#include "ref_domain.h"
#include <idn2.h>
#include <stdlib.h>
static unsigned long ref_idn_calls;
/* asciiv = ref_domain(d,n,opts) already computed by the caller */
static int ref_expect_6531(const unsigned char *d, size_t n, int asciiv, int opts) {
    int ascii = 1; for (size_t i = 0; i < n; i++) if (d[i] >= 0x80) ascii = 0;
    if (ascii && asciiv == R_REJ) return R_REJ;          /* TR46 maps ASCII only by case: structure is unchanged */
    if (ascii && ref_idn_transparent(d, n)) return asciiv;
    if (n > 4000) return R_REJ;
    char tmp[4001]; memcpy(tmp, d, n); tmp[n] = 0;
    char *a = NULL;
    int r = idn2_to_ascii_8z(tmp, &a, IDN2_NONTRANSITIONAL);
    ref_idn_calls++;
    if (r != IDN2_OK) { if (a) free(a); return R_REJ; }
    int v = ref_domain((const unsigned char *)a, strlen(a), opts);
    free(a);
    return v;
}
#endif
