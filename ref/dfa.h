/* dfa.h - tools over a reference automaton given as step/output functions:
 * reachable states with shortest access strings (over all 255 byte values),
 * state equivalence, and a characterisation set W over a token alphabet.
 */
#ifndef DFA_H
#define DFA_H
#include <string.h>
#include <stdlib.h>
#include <stdio.h>

#define DFA_MAXS 256
#define DFA_MAXW 24

typedef struct {
    int (*step)(int st, int byte, void *ctx);
    int (*out)(int st, void *ctx);        /* Moore output (verdict if the string ended here) */
    void *ctx;
    int init;
    /* results */
    int n;                                /* reachable states */
    int id[DFA_MAXS];                     /* state value */
    unsigned char acc[DFA_MAXS][32];      /* shortest access string */
    int acclen[DFA_MAXS];
    int cls[DFA_MAXS];                    /* equivalence class under all bytes */
    int ncls;
    /* characterisation set over tokens */
    int nW, maxW;                         /* number of strings, max length in tokens */
    unsigned char W[DFA_MAXS][DFA_MAXW]; int Wlen[DFA_MAXS]; int Wtok[DFA_MAXS];
} dfa_t;

static int dfa_find(dfa_t *d, int st) {
    for (int i = 0; i < d->n; i++) if (d->id[i] == st) return i;
    return -1;
}

static void dfa_explore(dfa_t *d) {
    d->n = 0;
    d->id[0] = d->init; d->acclen[0] = 0; d->n = 1;
    for (int h = 0; h < d->n; h++) {
        for (int b = 1; b < 256; b++) {
            int t = d->step(d->id[h], b, d->ctx);
            if (dfa_find(d, t) >= 0) continue;
            if (d->n >= DFA_MAXS || d->acclen[h] + 1 > 31) { fprintf(stderr, "dfa: too many states\n"); exit(2); }
            int k = d->n++;
            d->id[k] = t;
            memcpy(d->acc[k], d->acc[h], (size_t)d->acclen[h]);
            d->acc[k][d->acclen[h]] = (unsigned char)b;
            d->acclen[k] = d->acclen[h] + 1;
        }
    }
}

/* run a byte string from state index i, return state index */
static int dfa_run_idx(dfa_t *d, int i, const unsigned char *s, int n) {
    int st = d->id[i];
    for (int k = 0; k < n; k++) st = d->step(st, s[k], d->ctx);
    int r = dfa_find(d, st);
    if (r < 0) { fprintf(stderr, "dfa: left the reachable set\n"); exit(2); }
    return r;
}

/* Pairwise distinguishing strings by table filling, alphabet = tokens (byte strings).
 * With tok == NULL the alphabet is all 255 single bytes (used to compute the true
 * equivalence classes).  Returns number of distinguishable pairs; fills dist length. */
typedef struct { const unsigned char *b; int n; } dfa_tok_t;

static short dfa_dl[DFA_MAXS][DFA_MAXS];        /* length in tokens of shortest distinguishing string, -1 = none */
static short dfa_dt[DFA_MAXS][DFA_MAXS];        /* first token of it */

static void dfa_table(dfa_t *d, const dfa_tok_t *tok, int ntok) {
    int n = d->n;
    static short nxt[DFA_MAXS][256];
    int nt = tok ? ntok : 255;
    for (int i = 0; i < n; i++)
        for (int t = 0; t < nt; t++) {
            if (tok) nxt[i][t] = (short)dfa_run_idx(d, i, tok[t].b, tok[t].n);
            else { unsigned char b = (unsigned char)(t + 1); nxt[i][t] = (short)dfa_run_idx(d, i, &b, 1); }
        }
    for (int i = 0; i < n; i++) for (int j = 0; j < n; j++) {
        dfa_dl[i][j] = (d->out(d->id[i], d->ctx) != d->out(d->id[j], d->ctx)) ? 0 : -1;
        dfa_dt[i][j] = -1;
    }
    for (int round = 1; round <= n + 1; round++) {
        int changed = 0;
        for (int i = 0; i < n; i++) for (int j = i + 1; j < n; j++) {
            if (dfa_dl[i][j] >= 0) continue;
            for (int t = 0; t < nt; t++) {
                int a = nxt[i][t], b = nxt[j][t];
                if (a != b && dfa_dl[a][b] == round - 1) {
                    dfa_dl[i][j] = dfa_dl[j][i] = (short)round;
                    dfa_dt[i][j] = dfa_dt[j][i] = (short)t;
                    changed = 1; break;
                }
            }
        }
        if (!changed) break;
    }
}

/* equivalence classes under all bytes */
static void dfa_classes(dfa_t *d) {
    dfa_table(d, NULL, 0);
    d->ncls = 0;
    for (int i = 0; i < d->n; i++) {
        d->cls[i] = -1;
        for (int j = 0; j < i; j++) if (dfa_dl[i][j] < 0) { d->cls[i] = d->cls[j]; break; }
        if (d->cls[i] < 0) d->cls[i] = d->ncls++;
    }
}

/* characterisation set over tokens; returns 0 if the token alphabet separates exactly
 * the byte-level classes, -1 otherwise (harness error) */
static int dfa_charset(dfa_t *d, const dfa_tok_t *tok, int ntok) {
    dfa_classes(d);
    static int clsave[DFA_MAXS]; memcpy(clsave, d->cls, sizeof clsave);
    dfa_table(d, tok, ntok);
    d->nW = 0; d->maxW = 0;
    static short nxt[DFA_MAXS][64];
    for (int i = 0; i < d->n; i++) for (int t = 0; t < ntok; t++) nxt[i][t] = (short)dfa_run_idx(d, i, tok[t].b, tok[t].n);
    for (int i = 0; i < d->n; i++) for (int j = i + 1; j < d->n; j++) {
        int same = clsave[i] == clsave[j];
        if (same != (dfa_dl[i][j] < 0)) return -1;
        if (dfa_dl[i][j] <= 0) continue;         /* equal, or distinguished by the empty string */
        /* rebuild the string */
        unsigned char w[DFA_MAXW]; int wl = 0, nt = 0, a = i, b = j;
        while (dfa_dl[a][b] > 0) {
            int t = dfa_dt[a][b];
            if (wl + tok[t].n >= DFA_MAXW) return -1;
            memcpy(w + wl, tok[t].b, (size_t)tok[t].n); wl += tok[t].n; nt++;
            int a2 = nxt[a][t], b2 = nxt[b][t]; a = a2; b = b2;
        }
        int dup = 0;
        for (int k = 0; k < d->nW; k++) if (d->Wlen[k] == wl && !memcmp(d->W[k], w, (size_t)wl)) { dup = 1; break; }
        if (!dup && d->nW < DFA_MAXS) { memcpy(d->W[d->nW], w, (size_t)wl); d->Wlen[d->nW] = wl; d->Wtok[d->nW] = nt; d->nW++; }
        if (nt > d->maxW) d->maxW = nt;
    }
    return 0;
}
#endif
