/* ref_local.h - reference recognisers for local parts, written from the text
 * of properties C02/C03/C17 as explicit byte-level DFAs (no look-ahead, no
 * look-behind: everything is in the state).
 *
 * A reference state is an int: bits 0..7 grammar state, bits 8..11 UTF-8
 * sub-state (mode 6531 only).  Two variants exist for mode 5322 (DC-1):
 * STRICT (an escaped DQUOTE / escaped whitespace never qualifies as the
 * neighbour of an unescaped whitespace) and LENIENT (it does, before or
 * after).  Verdict = ACC if both accept, REJ if both reject, ANY otherwise.
 */
#ifndef REF_LOCAL_H
#define REF_LOCAL_H
#include <stddef.h>

enum { R_REJ = 0, R_ACC = 1, R_ANY = 2 };

enum { RM_822 = 0, RM_5321 = 1, RM_5322 = 2, RM_6531 = 3 };

/* build options (C17) */
#define RO_RFC5322   1   /* RFC6531_FOLLOW_RFC5322 */
#define RO_RFC20     2   /* RFC6531_FOLLOW_RFC20 */
#define RO_UNDERSCORE 4  /* LABELS_ALLOW_UNDERSCORE */

enum {
    G_START = 0,   /* nothing consumed yet: a word must start */
    G_WSTART,      /* just after a dot: a word must start */
    G_ATOM,        /* inside an atom */
    G_AQ,          /* just after a closing quote: only '.' or end */
    G_Q,           /* quoted text (822, 5321, 6531) / 5322: previous neighbour does not qualify */
    G_QP,          /* 5322: quoted text, previous byte qualifies (opening DQUOTE or unescaped WS) */
    G_QW,          /* 5322: an unescaped WS is pending: next must be DQUOTE or WS */
    G_QWESC,       /* 5322 lenient: pending WS then backslash: next must be DQUOTE/WS */
    G_QESC,        /* after backslash inside quotes */
    G_QCR,         /* 822: after CR in quoted text */
    G_QCRLF,       /* 822: after CR LF in quoted text */
    G_DEAD,
    G_NSTATES
};
static const char *const ref_gname[] = { "START", "WSTART", "ATOM", "AFTER_QUOTE", "Q_TEXT", "Q_TEXT_PREVOK",
    "Q_WS_PENDING", "Q_WS_PENDING_ESC", "Q_ESC", "Q_CR", "Q_CRLF", "DEAD" };

static int ref_is_special(int c) {
    switch (c) { case '(': case ')': case '<': case '>': case '@': case ',': case ';': case ':':
                 case '\\': case '"': case '.': case '[': case ']': return 1; }
    return 0;
}
static int ref_is_atext(int c, int mode, int opts) {
    if (c < 0x21 || c > 0x7e) return 0;
    if (ref_is_special(c)) return 0;
    if (mode == RM_6531 && (opts & RO_RFC20))
        switch (c) { case '#': case '^': case '`': case '{': case '|': case '}': case '~': return 0; }
    return 1;
}
static int ref_is_ws(int c) { return c == ' ' || c == '\t' || c == '\r' || c == '\n'; }

/* grammar step on an ASCII byte c (1..127) or on a complete non-ASCII scalar (c = 0x100).
 * qmode: which quoted-text rules apply (RM_822, RM_5321, RM_5322). */
static int ref_gstep(int g, int c, int mode, int qmode, int opts, int lenient) {
    int nonascii = (c == 0x100);
    switch (g) {
    case G_START: case G_WSTART:
        if (nonascii) return G_ATOM;
        if (c == '"') return qmode == RM_5322 ? G_QP : G_Q;
        return ref_is_atext(c, mode, opts) ? G_ATOM : G_DEAD;
    case G_ATOM:
        if (nonascii) return G_ATOM;
        if (c == '.') return G_WSTART;
        return ref_is_atext(c, mode, opts) ? G_ATOM : G_DEAD;
    case G_AQ:
        if (nonascii) return G_DEAD;
        return c == '.' ? G_WSTART : G_DEAD;
    case G_Q:
        if (nonascii) return G_Q;
        if (c == '"') return G_AQ;
        if (c == '\\') return G_QESC;
        if (qmode == RM_822) return c == '\r' ? G_QCR : G_Q;
        if (qmode == RM_5321) return (c >= 0x20 && c <= 0x7e) ? G_Q : G_DEAD;
        /* 5322, previous neighbour does not qualify */
        return ref_is_ws(c) ? G_QW : G_Q;
    case G_QP:  /* 5322 only */
        if (nonascii) return G_Q;
        if (c == '"') return G_AQ;
        if (c == '\\') return G_QESC;
        return ref_is_ws(c) ? G_QP : G_Q;
    case G_QW:  /* 5322 only */
        if (nonascii) return G_DEAD;
        if (c == '"') return G_AQ;
        if (ref_is_ws(c)) return G_QP;
        if (c == '\\') return lenient ? G_QWESC : G_DEAD;
        return G_DEAD;
    case G_QWESC:
        if (nonascii) return G_DEAD;
        return (c == '"' || ref_is_ws(c)) ? G_QP : G_DEAD;
    case G_QESC:
        if (nonascii) return G_DEAD;           /* a backslash escapes ASCII only */
        if (qmode == RM_5321) return (c >= 0x20 && c <= 0x7e) ? G_Q : G_DEAD;
        if (qmode == RM_822) return G_Q;
        /* 5322: any ASCII; lenient: an escaped DQUOTE/WS qualifies as neighbour */
        return (lenient && (c == '"' || ref_is_ws(c))) ? G_QP : G_Q;
    case G_QCR:
        return (!nonascii && c == '\n') ? G_QCRLF : G_DEAD;
    case G_QCRLF:
        return (!nonascii && (c == ' ' || c == '\t')) ? G_Q : G_DEAD;
    }
    return G_DEAD;
}

static int ref_qmode(int mode, int opts) {
    if (mode == RM_6531) return (opts & RO_RFC5322) ? RM_5322 : RM_5321;
    return mode;
}

/* UTF-8 sub-states (Unicode 15 Table 3-7) */
enum { U_NONE = 0, U_C1 /* one 80..BF */, U_C2 /* two 80..BF */, U_E0 /* A0..BF then 1 */, U_ED /* 80..9F then 1 */,
       U_C3 /* three 80..BF */, U_F0 /* 90..BF then 2 */, U_F4 /* 80..8F then 2 */ };

#define REF_DEAD (G_DEAD)
static int ref_step(int st, int b, int mode, int opts, int lenient) {
    int g = st & 0xff, u = (st >> 8) & 0xf;
    int qm = ref_qmode(mode, opts);
    if (g == G_DEAD) return REF_DEAD;
    if (u != U_NONE) {
        int lo = 0x80, hi = 0xbf, nu = U_NONE;
        switch (u) {
        case U_C1: nu = U_NONE; break;
        case U_C2: nu = U_C1; break;
        case U_E0: lo = 0xa0; nu = U_C1; break;
        case U_ED: hi = 0x9f; nu = U_C1; break;
        case U_C3: nu = U_C2; break;
        case U_F0: lo = 0x90; nu = U_C2; break;
        case U_F4: hi = 0x8f; nu = U_C2; break;
        }
        if (b < lo || b > hi) return REF_DEAD;
        return g | (nu << 8);
    }
    if (b < 0x80) return ref_gstep(g, b, mode, qm, opts, lenient);
    if (mode != RM_6531) return REF_DEAD;
    int nu;
    if (b >= 0xc2 && b <= 0xdf) nu = U_C1;
    else if (b == 0xe0) nu = U_E0;
    else if (b == 0xed) nu = U_ED;
    else if (b >= 0xe1 && b <= 0xef) nu = U_C2;
    else if (b == 0xf0) nu = U_F0;
    else if (b == 0xf4) nu = U_F4;
    else if (b >= 0xf1 && b <= 0xf3) nu = U_C3;
    else return REF_DEAD;
    int g2 = ref_gstep(g, 0x100, mode, qm, opts, lenient);   /* grammar effect of the scalar, applied at its lead byte */
    if (g2 == G_DEAD) return REF_DEAD;
    return g2 | (nu << 8);
}
static int ref_accepting(int st) {
    int g = st & 0xff, u = (st >> 8) & 0xf;
    return u == U_NONE && (g == G_ATOM || g == G_AQ);
}

static int ref_run(const unsigned char *s, size_t n, int mode, int opts, int lenient) {
    int st = G_START;
    for (size_t i = 0; i < n; i++) {
        if (s[i] == 0) return REF_DEAD;
        st = ref_step(st, s[i], mode, opts, lenient);
        if (st == REF_DEAD) break;
    }
    return st;
}

/* independent strict UTF-8 validator (used for DC-3 and by other references) */
static int ref_utf8_valid(const unsigned char *s, size_t n) {
    size_t i = 0;
    while (i < n) {
        unsigned c = s[i];
        if (c < 0x80) { i++; continue; }
        unsigned long cp; int need;
        if (c >= 0xc2 && c <= 0xdf) { need = 1; cp = c & 0x1f; }
        else if (c >= 0xe0 && c <= 0xef) { need = 2; cp = c & 0x0f; }
        else if (c >= 0xf0 && c <= 0xf4) { need = 3; cp = c & 0x07; }
        else return 0;
        if (i + (size_t)need >= n) return 0;      /* truncated sequence */
        for (int k = 1; k <= need; k++) { unsigned d = s[i + k]; if ((d & 0xc0) != 0x80) return 0; cp = (cp << 6) | (d & 0x3f); }
        if (need == 2 && cp < 0x800) return 0;
        if (need == 3 && cp < 0x10000) return 0;
        if (cp >= 0xd800 && cp <= 0xdfff) return 0;
        if (cp > 0x10ffff) return 0;
        i += (size_t)need + 1;
    }
    return 1;
}

/* Three-valued verdict for a local part (length limits are C01's business). */
static int ref_local(const unsigned char *s, size_t n, int mode, int opts) {
    if (n == 0) return R_REJ;
    int has_hi = 0, has_ctl_ws = 0;
    for (size_t i = 0; i < n; i++) {
        if (s[i] == 0) return R_REJ;
        if (s[i] >= 0x80) has_hi = 1;
        if (s[i] < 0x21 || s[i] == 0x7f) has_ctl_ws = 1;
    }
    int a = ref_accepting(ref_run(s, n, mode, opts, 0));
    int qm = ref_qmode(mode, opts);
    int b = (qm == RM_5322) ? ref_accepting(ref_run(s, n, mode, opts, 1)) : a;
    if (mode == RM_6531 && (opts & RO_RFC5322) && has_hi && has_ctl_ws) {
        /* DC-3: only malformed UTF-8 is pinned (REJ) */
        if (!ref_utf8_valid(s, n)) return R_REJ;
        return R_ANY;
    }
    if (a && b) return R_ACC;
    if (!a && !b) return R_REJ;
    return R_ANY;
}
#endif
