/* ref_tld.h - the TLD map loaded from data/punycode.csv by the harness's own CSV reader
 * (never from auto_tld.c), the documented class rule of util/gentld.pl, and the reserved names. */
#ifndef REF_TLD_H
#define REF_TLD_H
#include <stdio.h>
#include <stdlib.h>
#include <string.h>
#include <strings.h>
#include <ctype.h>

enum { RT_NOT_ASSIGNED = 1, RT_COUNTRY_CODE, RT_GENERIC, RT_GENERIC_RESTRICTED, RT_INFRASTRUCTURE, RT_SPONSORED, RT_TEST, RT_SPECIAL, RT_RETIRED };
static const char *const rt_name[] = { "unused", "not-assigned", "country-code", "generic", "generic-restricted", "infrastructure", "sponsored", "test", "special", "retired" };

typedef struct { char *domain, *type, *manager; int cls; } rt_row_t;
typedef struct { rt_row_t *row; int n; int *hash; int hsize; } rt_csv_t;

static const char *rt_repo(void) { const char *r = getenv("REPO"); return (r && r[0]) ? r : "/repo"; }

/* minimal RFC 4180 reader: quoted fields, "" escapes, LF or CRLF */
static int RT_MALFORMED; static int RT_MALFORMED_LINE; static char RT_MALFORMED_FILE[256];   /* quoted fields with a bare '"' inside: strict CSV readers (Text::CSV) stop there */
static int rt_read_csv(const char *path, rt_csv_t *t, int skip_header) {
    FILE *f = fopen(path, "rb"); if (!f) { perror(path); return -1; }
    fseek(f, 0, SEEK_END); long sz = ftell(f); fseek(f, 0, SEEK_SET);
    char *b = malloc((size_t)sz + 2); if (fread(b, 1, (size_t)sz, f) != (size_t)sz) { fclose(f); return -1; } b[sz] = 0; fclose(f);
    int cap = 4096; t->row = calloc((size_t)cap, sizeof *t->row); t->n = 0;
    char *p = b; int line = 0;
    while (*p) {
        char *fld[8]; int nf = 0;
        for (;;) {
            char *out = p, *start = p;
            if (*p == '"') {
                p++; start = out = p;
                for (;;) {
                    if (*p == 0) break;
                    if (*p == '"') { if (p[1] == '"') { *out++ = '"'; p += 2; continue; }
                        if (p[1] == ',' || p[1] == '\n' || p[1] == '\r' || p[1] == 0) { p++; break; }
                        /* a bare quote inside a quoted field: keep it as a character (lenient), remember the record */
                        if (!RT_MALFORMED) { RT_MALFORMED_LINE = line + 1; snprintf(RT_MALFORMED_FILE, sizeof RT_MALFORMED_FILE, "%s", path); } RT_MALFORMED++;
                        *out++ = *p++; continue; }
                    *out++ = *p++;
                }
            } else { while (*p && *p != ',' && *p != '\n' && *p != '\r') p++; out = p; }
            char term = *p;
            if (nf < 8) fld[nf++] = start;
            char *endf = out;
            if (term == ',') { p++; *endf = 0; continue; }
            if (term == '\r' && p[1] == '\n') p++;
            if (*p) p++;
            *endf = 0;
            break;
        }
        line++;
        /* line 1 is the title line "Domain","Type","TLD Manager" - but only if it IS one: a first line whose second field is an IANA type is a data
         * row like any other (a CSV exported without its title line must not lose its first TLD) */
        if (skip_header && line == 1 && !(nf >= 3 && (!strcmp(fld[1], "generic") || !strcmp(fld[1], "country-code") || !strcmp(fld[1], "sponsored") ||
            !strcmp(fld[1], "infrastructure") || !strcmp(fld[1], "generic-restricted") || !strcmp(fld[1], "test")))) continue;
        if (nf == 1 && fld[0][0] == 0) continue;
        if (nf < 3) { fprintf(stderr, "%s:%d: %d fields\n", path, line, nf); return -1; }
        if (t->n >= cap) { cap *= 2; t->row = realloc(t->row, (size_t)cap * sizeof *t->row); }
        t->row[t->n].domain = fld[0]; t->row[t->n].type = fld[1]; t->row[t->n].manager = fld[2]; t->n++;
    }
    return 0;
}
/* the generator's documented rule */
static int rt_class_of(const char *type, const char *manager) {
    if (strncasecmp(manager, "Not assigned", 12) == 0) return RT_NOT_ASSIGNED;
    if (strncasecmp(manager, "Retired", 7) == 0) return RT_RETIRED;
    if (!strcmp(type, "generic")) return RT_GENERIC;
    if (!strcmp(type, "country-code")) return RT_COUNTRY_CODE;
    if (!strcmp(type, "generic-restricted")) return RT_GENERIC_RESTRICTED;
    if (!strcmp(type, "infrastructure")) return RT_INFRASTRUCTURE;
    if (!strcmp(type, "test")) return RT_TEST;
    if (!strcmp(type, "sponsored")) return RT_SPONSORED;
    return -1;
}
static unsigned rt_hash(const char *s, size_t n) {
    unsigned h = 2166136261u; for (size_t i = 0; i < n; i++) { h ^= (unsigned char)tolower((unsigned char)s[i]); h *= 16777619u; } return h;
}
static void rt_index(rt_csv_t *t) {
    t->hsize = 8192; t->hash = malloc(sizeof(int) * (size_t)t->hsize);
    for (int i = 0; i < t->hsize; i++) t->hash[i] = -1;
    for (int i = 0; i < t->n; i++) {
        t->row[i].cls = rt_class_of(t->row[i].type, t->row[i].manager);
        unsigned h = rt_hash(t->row[i].domain, strlen(t->row[i].domain)) % (unsigned)t->hsize;
        while (t->hash[h] >= 0) h = (h + 1) % (unsigned)t->hsize;
        t->hash[h] = i;
    }
}
/* case-insensitive whole-label lookup: class or 0 when not listed */
static int rt_lookup(const rt_csv_t *t, const char *s, size_t n) {
    unsigned h = rt_hash(s, n) % (unsigned)t->hsize;
    while (t->hash[h] >= 0) {
        const char *d = t->row[t->hash[h]].domain;
        if (strlen(d) == n && strncasecmp(d, s, n) == 0) return t->row[t->hash[h]].cls;
        h = (h + 1) % (unsigned)t->hsize;
    }
    return 0;
}
static rt_csv_t RT_PUNY;
static int rt_load(void) {
    char p[1024]; snprintf(p, sizeof p, "%s/data/punycode.csv", rt_repo());
    if (rt_read_csv(p, &RT_PUNY, 1)) return -1;
    rt_index(&RT_PUNY);
    return 0;
}

/* reserved names spelled out (RFC 2606 / 6761 / 7686): domain without root dot */
static int rt_label_eq(const char *s, size_t n, const char *w) { return strlen(w) == n && strncasecmp(s, w, n) == 0; }
static int ref_special(const char *d, size_t n) {
    /* last label */
    size_t i = n; while (i > 0 && d[i - 1] != '.') i--;
    const char *last = d + i; size_t ll = n - i;
    if (rt_label_eq(last, ll, "test") || rt_label_eq(last, ll, "example") || rt_label_eq(last, ll, "invalid") ||
        rt_label_eq(last, ll, "localhost") || rt_label_eq(last, ll, "onion")) return 1;
    if (i == 0) return 0;
    size_t j = i - 1; while (j > 0 && d[j - 1] != '.') j--;
    const char *prev = d + j; size_t pl = i - 1 - j;
    if (rt_label_eq(prev, pl, "example") && (rt_label_eq(last, ll, "com") || rt_label_eq(last, ll, "net") || rt_label_eq(last, ll, "org"))) return 1;
    return 0;
}
#endif
